/-
  Lemmas about the region → source-table resolution of `PvtxTable` and of the simple table
  containers (`Model/PvtRegion.lean`).
-/
import OpmVerif.Model.PvtRegion

namespace OpmVerif.PvtRegion

variable {β : Type}

/-! ### the backward search -/

theorem searchBack_le (e : Nat → Bool) (k : Nat) : searchBack e k ≤ k := by
  induction k with
  | zero => simp [searchBack]
  | succ k ih =>
    unfold searchBack
    split
    · omega
    · omega

/-- Everything strictly between the result and the start is empty. -/
theorem searchBack_skipped (e : Nat → Bool) (k j : Nat) (h1 : searchBack e k < j) (h2 : j ≤ k) :
    e j = true := by
  induction k with
  | zero => simp [searchBack] at h1; omega
  | succ k ih =>
    unfold searchBack at h1
    split at h1
    · rename_i he
      by_cases hj : j = k + 1
      · rw [hj]; exact he
      · exact ih h1 (by omega)
    · omega

/-- The result is non-empty unless the search ran into index 0. -/
theorem searchBack_nonempty_or_zero (e : Nat → Bool) (k : Nat) :
    searchBack e k = 0 ∨ e (searchBack e k) = false := by
  induction k with
  | zero => left; rfl
  | succ k ih =>
    unfold searchBack
    split
    · exact ih
    · rename_i he
      right; simpa using he

theorem searchBack_nonempty (e : Nat → Bool) (k : Nat) (h0 : e 0 = false) :
    e (searchBack e k) = false := by
  rcases searchBack_nonempty_or_zero e k with h | h
  · rw [h]; exact h0
  · exact h

/-- The result is the *only* index with these properties: the last non-empty one at or before `k`. -/
theorem searchBack_unique (e : Nat → Bool) (k s : Nat) (hs : s ≤ k) (hne : e s = false)
    (hskip : ∀ j, s < j → j ≤ k → e j = true) : searchBack e k = s := by
  induction k with
  | zero => simp [searchBack]; omega
  | succ k ih =>
    unfold searchBack
    by_cases hk : s = k + 1
    · subst hk; simp [hne]
    · have : e (k + 1) = true := hskip (k + 1) (by omega) (by omega)
      simp only [this, if_true]
      exact ih (by omega) (fun j h1 h2 => hskip j h1 (by omega))

theorem searchBack_fixed (e : Nat → Bool) (k : Nat) (h : e k = false) : searchBack e k = k := by
  cases k with
  | zero => rfl
  | succ k => simp [searchBack, h]

theorem searchBack_idem (e : Nat → Bool) (k : Nat) :
    searchBack e (searchBack e k) = searchBack e k := by
  rcases searchBack_nonempty_or_zero e k with h | h
  · rw [h]; rfl
  · exact searchBack_fixed e _ h

/-- The search only looks at indices `≤ k`. -/
theorem searchBack_congr (e e' : Nat → Bool) (k : Nat) (h : ∀ j, j ≤ k → e j = e' j) :
    searchBack e k = searchBack e' k := by
  induction k with
  | zero => rfl
  | succ k ih =>
    unfold searchBack
    rw [h (k + 1) (Nat.le_refl _), ih (fun j hj => h j (by omega))]

/-! ### `recordRanges` cuts at the terminators -/

theorem filterMap_id_map_some (l : List β) : (l.map some).filterMap id = l := by
  induction l with
  | nil => rfl
  | cons a l ih => simp [ih]

theorem slice_at (pre : List (Option β)) (cur : List β) (rest : List (Option β)) :
    slice (pre ++ (cur.map some ++ rest)) (pre.length, pre.length + cur.length) = cur := by
  unfold slice
  simp only [List.drop_left', Nat.add_sub_cancel_left]
  have : (cur.map some ++ rest).take cur.length = cur.map some := by
    have hl : (cur.map some).length = cur.length := by simp
    exact List.take_left' hl
  rw [this, filterMap_id_map_some]

/-- Ranges and the index-free cut describe the same tables. -/
theorem ranges_slice (recs pre : List (Option β)) (cur : List β) :
    (rangesFrom recs pre.length (pre.length + cur.length)).map
        (slice (pre ++ (cur.map some ++ recs))) = splitFrom recs cur := by
  induction recs generalizing pre cur with
  | nil =>
    simp only [rangesFrom, splitFrom, List.map_cons, List.map_nil]
    rw [slice_at]
  | cons a r ih =>
    cases a with
    | none =>
      simp only [rangesFrom, splitFrom, List.map_cons]
      rw [slice_at]
      have h := ih (pre ++ (cur.map some ++ [none])) []
      simp only [List.length_append, List.length_map, List.length_cons, List.length_nil,
        List.map_nil, List.nil_append, Nat.add_zero, Nat.zero_add, List.append_assoc, List.cons_append,
        ← Nat.add_assoc] at h
      rw [h]
    | some x =>
      simp only [rangesFrom, splitFrom]
      have h := ih pre (cur ++ [x])
      simp only [List.length_append, List.length_cons, List.length_nil, List.map_append,
        List.map_cons, List.map_nil, List.append_assoc, List.cons_append, List.nil_append] at h
      rw [← h]
      congr 2

/-- Width of every range = length of the corresponding table; ranges are well formed. -/
theorem ranges_width (recs : List (Option β)) (s : Nat) (cur : List β) :
    (rangesFrom recs s (s + cur.length)).map (fun r => (decide (r.1 = r.2))) =
      (splitFrom recs cur).map (fun t => t.isEmpty) := by
  induction recs generalizing s cur with
  | nil =>
    simp only [rangesFrom, splitFrom, List.map_cons, List.map_nil]
    cases cur <;> simp
  | cons a r ih =>
    cases a with
    | none =>
      simp only [rangesFrom, splitFrom, List.map_cons]
      have h := ih (s + cur.length + 1) []
      simp only [List.length_nil, Nat.add_zero] at h
      rw [h]
      cases cur <;> simp
    | some x =>
      simp only [rangesFrom, splitFrom]
      have h := ih s (cur ++ [x])
      simp only [List.length_append, List.length_cons, List.length_nil] at h
      rw [← h]
      congr 1

theorem splitFrom_append (t : List β) (rest : List (Option β)) (cur : List β) :
    splitFrom (t.map some ++ rest) cur = splitFrom rest (cur ++ t) := by
  induction t generalizing cur with
  | nil => simp
  | cons a t ih =>
    simp only [List.map_cons, List.cons_append, splitFrom]
    rw [ih]; simp

theorem splitFrom_encode (t : List β) (us : List (List β)) (cur : List β) :
    splitFrom (encode t us) cur = (cur ++ t) :: us := by
  induction us generalizing t cur with
  | nil =>
    have := splitFrom_append t [] cur
    simp only [List.append_nil] at this
    simp [encode, this, splitFrom]
  | cons u us ih =>
    simp only [encode]
    rw [splitFrom_append]
    simp only [splitFrom]
    rw [ih]; simp

/-- `recordRanges` recovers exactly the regions' tables from the keyword's record list. -/
theorem recordRanges_encode (t : List β) (us : List (List β)) :
    (recordRanges (encode t us)).map (slice (encode t us)) = t :: us := by
  have h := ranges_slice (encode t us) [] []
  simp only [List.length_nil, Nat.add_zero, List.map_nil, List.nil_append] at h
  unfold recordRanges
  rw [h, splitFrom_encode]; simp

theorem recordRanges_encode_empty (t : List β) (us : List (List β)) :
    (recordRanges (encode t us)).map (fun r => decide (r.1 = r.2)) =
      (t :: us).map (fun t => t.isEmpty) := by
  have h := ranges_width (encode t us) 0 []
  simp only [List.length_nil, Nat.add_zero] at h
  unfold recordRanges
  rw [h, splitFrom_encode]; simp

theorem recordRanges_encode_length (t : List β) (us : List (List β)) :
    (recordRanges (encode t us)).length = us.length + 1 := by
  have h := congrArg List.length (recordRanges_encode t us)
  simpa using h

theorem rangeEmpty_encode (t : List β) (us : List (List β)) (j : Nat) (hj : j < us.length + 1) :
    rangeEmpty (recordRanges (encode t us)) j = ((t :: us).getD j []).isEmpty := by
  have h := recordRanges_encode_empty t us
  have hl := recordRanges_encode_length t us
  have h1 := congrArg (fun l => l.getD j false) h
  rw [List.getD_eq_getElem?_getD, List.getD_eq_getElem?_getD] at h1
  simp only [List.getElem?_map] at h1
  have hj1 : j < (recordRanges (encode t us)).length := by omega
  have hj2 : j < (t :: us).length := by simpa using hj
  rw [List.getElem?_eq_getElem hj1, List.getElem?_eq_getElem hj2] at h1
  simp only [Option.map_some, Option.getD_some] at h1
  unfold rangeEmpty
  rw [List.getD_eq_getElem?_getD, List.getD_eq_getElem?_getD, List.getElem?_eq_getElem hj1,
    List.getElem?_eq_getElem hj2]
  simp only [Option.getD_some]
  rw [← h1]
  by_cases hh : (recordRanges (encode t us))[j].1 = (recordRanges (encode t us))[j].2 <;> simp [hh]

theorem slice_encode (t : List β) (us : List (List β)) (j : Nat) (hj : j < us.length + 1) :
    slice (encode t us) ((recordRanges (encode t us)).getD j (0, 0)) = (t :: us).getD j [] := by
  have h := recordRanges_encode t us
  have hl := recordRanges_encode_length t us
  have hj1 : j < (recordRanges (encode t us)).length := by omega
  have hj2 : j < (t :: us).length := by simpa using hj
  have h1 := congrArg (fun l => l[j]?) h
  simp only [List.getElem?_map, List.getElem?_eq_getElem hj1, List.getElem?_eq_getElem hj2,
    Option.map_some] at h1
  rw [List.getD_eq_getElem?_getD, List.getD_eq_getElem?_getD, List.getElem?_eq_getElem hj1,
    List.getElem?_eq_getElem hj2]
  simp only [Option.getD_some]
  exact Option.some.inj h1

/-- `init` on a keyword = the table found by the backward search over the regions' tables. -/
theorem init_encode (t : List β) (us : List (List β)) (k : Nat) (hk : k < us.length + 1)
    (ht : t ≠ []) :
    init (encode t us) k =
      .ok ((t :: us).getD (searchBack (fun j => ((t :: us).getD j []).isEmpty) k) []) := by
  unfold init
  have hl := recordRanges_encode_length t us
  have h0 : rangeEmpty (recordRanges (encode t us)) 0 = false := by
    rw [rangeEmpty_encode t us 0 (by omega)]
    cases t with
    | nil => exact absurd rfl ht
    | cons a t => rfl
  rw [if_neg (by omega), if_neg (by simp [h0])]
  have hsb : searchBack (rangeEmpty (recordRanges (encode t us))) k =
      searchBack (fun j => ((t :: us).getD j []).isEmpty) k :=
    searchBack_congr _ _ k (fun j hj => rangeEmpty_encode t us j (by omega))
  rw [hsb, slice_encode t us _ (by
    have := searchBack_le (fun j => ((t :: us).getD j []).isEmpty) k; omega)]

theorem init_encode_first_defaulted (us : List (List β)) :
    init (encode ([] : List β) us) 0 = .error .cannotDefaultFirst := by
  unfold init
  have hl := recordRanges_encode_length ([] : List β) us
  have h0 : rangeEmpty (recordRanges (encode ([] : List β) us)) 0 = true := by
    rw [rangeEmpty_encode [] us 0 (by omega)]; rfl
  rw [if_neg (by omega), if_pos (by simp [h0])]

theorem init_encode_no_such (t : List β) (us : List (List β)) (k : Nat) (hk : us.length + 1 ≤ k) :
    init (encode t us) k = .error .noSuchTable := by
  unfold init
  rw [if_pos (by rw [recordRanges_encode_length]; exact hk)]

/-! ### `resolve` -/

theorem resolve_first_defaulted (ts : List (List β)) : resolve ([] :: ts) = none := by
  simp [resolve]

theorem resolve_length (ts rs : List (List β)) (h : resolve ts = some rs) : rs.length = ts.length := by
  unfold resolve at h
  split at h
  · cases h
  · cases h; simp

theorem resolve_get (ts rs : List (List β)) (h : resolve ts = some rs) (k : Nat) (hk : k < ts.length) :
    rs.getD k [] = ts.getD (searchBack (fun j => (ts.getD j []).isEmpty) k) [] := by
  unfold resolve at h
  split at h
  · cases h
  · cases h
    rw [List.getD_eq_getElem?_getD]
    simp [hk]

theorem resolve_first_nonempty (ts rs : List (List β)) (h : resolve ts = some rs) (h0 : 0 < ts.length) :
    (ts.getD 0 []).isEmpty = false := by
  unfold resolve at h
  split at h
  · cases h
  · rename_i hn
    cases hh : (ts.getD 0 []).isEmpty
    · rfl
    · exact absurd ⟨hh, h0⟩ hn

/-- The specification: region `k` gets table `s`, the last non-empty one at or before `k`. -/
theorem resolve_spec (ts rs : List (List β)) (h : resolve ts = some rs) (k : Nat) (hk : k < ts.length) :
    ∃ s, s ≤ k ∧ rs.getD k [] = ts.getD s [] ∧ ts.getD s [] ≠ [] ∧
      ∀ j, s < j → j ≤ k → ts.getD j [] = [] := by
  refine ⟨searchBack (fun j => (ts.getD j []).isEmpty) k, searchBack_le _ _, resolve_get ts rs h k hk, ?_, ?_⟩
  · have h0 := resolve_first_nonempty ts rs h (by omega)
    have := searchBack_nonempty (fun j => (ts.getD j []).isEmpty) k h0
    intro hc
    simp only [hc, List.isEmpty_nil] at this
    cases this
  · intro j h1 h2
    have := searchBack_skipped (fun j => (ts.getD j []).isEmpty) k j h1 h2
    simpa using this

/-- … and that index is unique. -/
theorem resolve_spec_unique (ts rs : List (List β)) (h : resolve ts = some rs) (k s : Nat)
    (hs : s ≤ k) (hk : k < ts.length) (hne : ts.getD s [] ≠ [])
    (hskip : ∀ j, s < j → j ≤ k → ts.getD j [] = []) : rs.getD k [] = ts.getD s [] := by
  rw [resolve_get ts rs h k hk]
  congr 1
  apply searchBack_unique _ k s hs
  · cases hh : ts.getD s [] with
    | nil => exact absurd hh hne
    | cons a l => rfl
  · intro j h1 h2
    show (ts.getD j []).isEmpty = true
    rw [hskip j h1 h2]; rfl

theorem resolve_no_defaults (ts : List (List β)) (h : ∀ t ∈ ts, t ≠ []) : resolve ts = some ts := by
  unfold resolve
  have hne : ∀ j, j < ts.length → (ts.getD j []).isEmpty = false := by
    intro j hj
    rw [List.getD_eq_getElem?_getD, List.getElem?_eq_getElem hj]
    simp only [Option.getD_some]
    have := h ts[j] (List.getElem_mem hj)
    cases hh : ts[j] with
    | nil => exact absurd hh this
    | cons a l => rfl
  rw [if_neg]
  · congr 1
    apply List.ext_getElem
    · simp
    · intro k h1 h2
      simp only [List.getElem_map, List.getElem_range]
      rw [searchBack_fixed _ k (hne k h2), List.getD_eq_getElem?_getD, List.getElem?_eq_getElem h2]
      rfl
  · intro hc
    have := hne 0 hc.2
    rw [hc.1] at this
    cases this

theorem resolve_all_nonempty (ts rs : List (List β)) (h : resolve ts = some rs) :
    ∀ t ∈ rs, t ≠ [] := by
  intro t ht
  obtain ⟨k, hk, rfl⟩ := List.getElem_of_mem ht
  have hl := resolve_length ts rs h
  obtain ⟨s, _, h2, h3, _⟩ := resolve_spec ts rs h k (by omega)
  rw [List.getD_eq_getElem?_getD, List.getElem?_eq_getElem hk] at h2
  simp only [Option.getD_some] at h2
  rw [h2]; exact h3

/-- Resolving a resolved list changes nothing. -/
theorem resolve_idempotent (ts rs : List (List β)) (h : resolve ts = some rs) : resolve rs = some rs :=
  resolve_no_defaults rs (resolve_all_nonempty ts rs h)


/-! ### the whole keyword (`TableManager::initFullTables`) -/

theorem initAllFrom_ok (recs : List (Option β)) (f : Nat → List β) (ks : List Nat)
    (h : ∀ k ∈ ks, init recs k = .ok (f k)) : initAllFrom recs ks = .ok (ks.map f) := by
  induction ks with
  | nil => rfl
  | cons k ks ih =>
    unfold initAllFrom
    rw [h k (by simp), ih (fun j hj => h j (by simp [hj]))]
    rfl

/-- All regions of a keyword at once: the tables of `resolve`. -/
theorem initAll_encode (t : List β) (us : List (List β)) (ht : t ≠ []) :
    (resolve (t :: us)).map Except.ok = some (initAll (encode t us) : Except Err _) := by
  unfold initAll
  rw [recordRanges_encode_length,
    initAllFrom_ok (encode t us)
      (fun k => (t :: us).getD (searchBack (fun j => ((t :: us).getD j []).isEmpty) k) [])
      (List.range (us.length + 1))
      (fun k hk => init_encode t us k (by simpa using hk) ht)]
  unfold resolve
  have hc : ¬ (((t :: us).getD 0 []).isEmpty = true ∧ 0 < (t :: us).length) := by
    intro hc
    cases t with
    | nil => exact ht rfl
    | cons a l => simp at hc
  rw [if_neg hc]
  simp

theorem initAll_encode_first_defaulted (us : List (List β)) :
    initAll (encode ([] : List β) us) = .error .cannotDefaultFirst := by
  unfold initAll
  rw [recordRanges_encode_length, List.range_succ_eq_map]
  unfold initAllFrom
  rw [init_encode_first_defaulted]

/-! ### simple containers agree with the `PvtxTable` rule -/

theorem simpleGo_length (last : List β) (r : List (List β)) : (simpleGo last r).length = r.length := by
  induction r generalizing last with
  | nil => rfl
  | cons t r ih =>
    unfold simpleGo
    split <;> simp [ih]

theorem simpleGo_step (last : List β) (r : List (List β)) (k : Nat) (hk : k < r.length) :
    (last :: simpleGo last r).getD (k + 1) [] =
      if (r.getD k []).isEmpty then (last :: simpleGo last r).getD k [] else r.getD k [] := by
  induction r generalizing last k with
  | nil => simp at hk
  | cons t r ih =>
    cases k with
    | zero =>
      unfold simpleGo
      by_cases ht : t.isEmpty <;> simp [ht]
    | succ k =>
      have hk' : k < r.length := by simpa using hk
      unfold simpleGo
      by_cases ht : t.isEmpty
      · simp only [ht, if_true]
        have := ih last k hk'
        simpa using this
      · simp only [ht]
        have := ih t k hk'
        simpa using this

theorem simpleGo_eq_searchBack (t : List β) (r : List (List β)) (k : Nat)
    (hk : k < r.length + 1) :
    (t :: simpleGo t r).getD k [] =
      (t :: r).getD (searchBack (fun j => ((t :: r).getD j []).isEmpty) k) [] := by
  induction k with
  | zero => simp [searchBack]
  | succ k ih =>
    have hk' : k < r.length := by omega
    rw [simpleGo_step t r k hk']
    unfold searchBack
    have : ((t :: r).getD (k + 1) []) = r.getD k [] := by simp
    simp only [this]
    by_cases he : (r.getD k []).isEmpty
    · simp only [he, if_true]
      exact ih (by omega)
    · simp only [he]
      simp

/-- `initSimpleTableContainer` (PVDO, PVDG) and `PvtxTable::init` (PVTO, PVTG) implement the
same rule. -/
theorem simpleResolve_eq_resolve (ts : List (List β)) : simpleResolve ts = resolve ts := by
  cases ts with
  | nil => simp [simpleResolve, resolve]
  | cons t r =>
    unfold simpleResolve resolve
    by_cases ht : t.isEmpty
    · simp [ht]
    · have ht' : t ≠ [] := by intro hc; simp [hc] at ht
      have hc : ¬ (((t :: r).getD 0 []).isEmpty = true ∧ 0 < (t :: r).length) := by
        intro hc; exact ht (by simpa using hc.1)
      show (if t.isEmpty = true then none else some (t :: simpleGo t r)) = _
      rw [if_neg ht, if_neg hc]
      congr 1
      apply List.ext_getElem
      · simp [simpleGo_length]
      · intro k h1 h2
        have h3 : k < r.length + 1 := by simpa [simpleGo_length] using h1
        have := simpleGo_eq_searchBack t r k h3
        rw [List.getD_eq_getElem?_getD, List.getElem?_eq_getElem h1] at this
        simp only [Option.getD_some] at this
        rw [this]
        simp

end OpmVerif.PvtRegion
