-- Root of the library: the checks build the per-property targets
-- `OpmVerif.Props.Cxx`; this file only exists so that `lake build` builds all.
import OpmVerif.Model.EclBin
