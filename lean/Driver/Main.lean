/-
  Line-protocol driver: one operation per input line, one answer per output
  line.  The first token `<family>.<op>` selects the model.  Imports only
  `OpmVerif.Model.*` / `OpmVerif.Gen.*` (core Lean), so it links as an exe.
-/
import OpmVerif.Model.EclBinIO

open OpmVerif

def dispatch (line : String) : String :=
  match line.trimAscii.toString.splitOn " " with
  | [] => "bad-op"
  | op :: args =>
    if op.startsWith "eclbin." then Ecl.handleEclBin op args
    else "bad-op"

partial def loop (hin hout : IO.FS.Stream) : IO Unit := do
  let line ← hin.getLine
  if line.isEmpty then return ()
  hout.putStrLn (dispatch line)
  loop hin hout

def main : IO Unit := do
  let hin ← IO.getStdin
  let hout ← IO.getStdout
  loop hin hout
  hout.flush
