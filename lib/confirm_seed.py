#!/usr/bin/env python3
"""Confirm a seeded breaking change and run the registered check against it.

  lib/confirm_seed.py <seed-dir (patch.diff, demo.cpp, meta.json)> <property> <name>

Steps (all in the scratch tree /work/seedcheck, never in /repo except for step 4):
  1. sync scratch worktree to /repo HEAD, apply the patch, incremental build of library + tests
  2. ctest: every test that passes on the clean tree (BASELINE stable_pass) must still pass
  3. demo: fails with the patch, passes without
  4. apply the patch to /repo, run ./check <property> (quick), undo
Result is written to seeded/<name>/ (patch.diff, demo.cpp, meta.json)."""
import json, os, shutil, subprocess, sys, time

VERIF = os.path.dirname(os.path.dirname(os.path.abspath(__file__)))
ROOT = os.environ.get("SEEDCHECK_DIR", "/work/seedcheck")
SCR, SB = ROOT + "/repo", ROOT + "/build"
ENV = dict(os.environ, LD_LIBRARY_PATH="/root/miniconda/lib")


def sh(cmd, **kw):
    p = subprocess.run(cmd, shell=True, stdout=subprocess.PIPE, stderr=subprocess.STDOUT, text=True, env=ENV, **kw)
    return p.returncode, p.stdout


def build():
    return sh(f"nice cmake --build {SB} -j12 2>&1 | tail -3")


def ctest():
    rc, out = sh(f"ctest --test-dir {SB} -j10 --timeout 900 2>&1 | tail -60")
    failed = sorted({l.split()[2] for l in out.splitlines() if "(Failed)" in l or "Timeout" in l or "(SEGFAULT)" in l or "Subprocess aborted" in l or "(Exception)" in l})
    base = json.load(open("/root/.vp/BASELINE.json"))
    stable = {x.split("::")[0] for x in base["stable_pass"]}
    return sorted(set(failed) & stable), out[-600:]


def demo(src, exe):
    rc, out = sh(f"g++ -std=c++17 -O1 -I{SCR} -I{SB} -I{SB}/include {src} {SB}/lib/libopmcommon.a -L/root/miniconda/lib -lfmt -lboost_system -lboost_filesystem -lcjson -fopenmp -o {exe}")
    if rc != 0:
        return None, "demo does not compile: " + out[-800:]
    wd = os.path.dirname(exe)
    rc, out = sh(f"cd {wd} && timeout 600 {exe}")
    return rc, out[-600:]


def recheck(name, prop):
    """re-run the registered check against an already confirmed seeded change (after a check was strengthened)"""
    import fcntl
    dst = os.path.join(VERIF, "seeded", name)
    patch = os.path.join(dst, "patch.diff")
    meta = json.load(open(os.path.join(dst, "meta.json")))
    lock = open("/work/seedcheck.lock", "w"); fcntl.flock(lock, fcntl.LOCK_EX)
    assert sh("git -C /repo status --porcelain --untracked-files=no")[1].strip() == "", "/repo not clean"
    rc, out = sh(f"git -C /repo apply {patch}")
    if rc != 0:
        print("patch does not apply to current /repo HEAD:", out); return
    evf = os.path.join(VERIF, "evidence", prop + ".json")
    ev_saved = open(evf).read() if os.path.exists(evf) else None
    try:
        t0 = time.time()
        rc, out = sh(f"cd {VERIF} && ./check {prop} --tier quick")
        res = {"at": time.strftime("%Y-%m-%d %H:%M:%S"), "exit": rc, "wall_s": round(time.time() - t0, 1),
               "lines": [l[:600] for l in out.splitlines() if l.startswith("VIOLATION") or "TIE BROKEN" in l][:8],
               "detected": rc != 0,
               "detected_with_failing_input": any(l.startswith("VIOLATION") and "no-failing-input-found" not in l for l in out.splitlines())}
    finally:
        sh("git -C /repo checkout -- .")
        sh(f"cd {VERIF} && python3 lib/regen_all.py")
        if ev_saved is not None:
            open(evf, "w").write(ev_saved)
    meta.setdefault("confirmation", {}).setdefault("rechecks", []).append(res)
    meta["confirmation"]["detected"] = res["detected"]
    meta["confirmation"]["detected_with_failing_input"] = res["detected_with_failing_input"]
    json.dump(meta, open(os.path.join(dst, "meta.json"), "w"), indent=1)
    print(name, json.dumps({k: res[k] for k in ("exit", "detected", "detected_with_failing_input", "wall_s")}))


def main():
    if sys.argv[1] == "--recheck":
        return recheck(sys.argv[2], sys.argv[3])
    sdir, prop, name = sys.argv[1], sys.argv[2], sys.argv[3]
    patch = os.path.join(sdir, "patch.diff")
    res = {"property": prop, "confirmed_at": time.strftime("%Y-%m-%d %H:%M:%S")}
    head = sh("git -C /repo rev-parse HEAD")[1].strip()
    if not os.path.isdir(SCR):      # scratch worktree + build tree (removed again at the end of a session)
        os.makedirs(os.path.dirname(SCR), exist_ok=True)
        sh(f"git -C /repo worktree add --detach {SCR} {head}")
        sh(f"cmake -G Ninja -S {SCR} -B {SB} -DCMAKE_BUILD_TYPE=None -DCMAKE_CXX_FLAGS='-O1 -fopenmp -pthread -pipe -Wno-error' "
           f"-DBUILD_TESTING=ON -DOPM_ENABLE_PYTHON=OFF -DOPM_ENABLE_EMBEDDED_PYTHON=OFF -DUSE_MPI=OFF "
           f"-Dfmt_DIR=/root/miniconda/lib/cmake/fmt -DCMAKE_PREFIX_PATH=/root/miniconda")
    sh(f"git -C {SCR} checkout -q -- . && git -C {SCR} checkout -q --detach {head}")
    rc, out = sh(f"git -C {SCR} apply {patch}")
    if rc != 0:
        print("patch does not apply to current /repo HEAD:", out); res["applies"] = False
    else:
        res["applies"] = True
        rc, out = build(); res["compiles"] = rc == 0 and "FAILED" not in out
        newfail, tail = ctest(); res["tests_newly_failing_with_patch"] = newfail
        work = ROOT + "/demo"; shutil.rmtree(work, ignore_errors=True); os.makedirs(work)
        rc_p, out_p = demo(os.path.join(sdir, "demo.cpp"), os.path.join(work, "demo_patched"))
        res["demo_patched"] = {"exit": rc_p, "tail": out_p}
        sh(f"git -C {SCR} checkout -q -- .")
        build()
        rc_c, out_c = demo(os.path.join(sdir, "demo.cpp"), os.path.join(work, "demo_clean"))
        res["demo_clean"] = {"exit": rc_c, "tail": out_c}
        res["valid_seed"] = bool(res["compiles"] and not newfail and rc_p not in (0, None) and rc_c == 0)
    # run the registered check against the change in /repo itself
    if res.get("applies"):
        import fcntl
        lock = open("/work/seedcheck.lock", "w"); fcntl.flock(lock, fcntl.LOCK_EX)     # one confirmation at a time in /repo
        assert sh("git -C /repo status --porcelain --untracked-files=no")[1].strip() == "", "/repo not clean"
        sh(f"git -C /repo apply {patch}")
        evf = os.path.join(VERIF, "evidence", prop + ".json")
        ev_saved = open(evf).read() if os.path.exists(evf) else None
        try:
            t0 = time.time()
            rc, out = sh(f"cd {VERIF} && ./check {prop} --tier quick")
            res["check"] = {"exit": rc, "wall_s": round(time.time() - t0, 1),
                            "lines": [l for l in out.splitlines() if l.startswith("VIOLATION") or "TIE BROKEN" in l][:8]}
            res["detected"] = rc != 0
            res["detected_with_failing_input"] = any(l.startswith("VIOLATION") and "no-failing-input-found" not in l for l in out.splitlines())
        finally:
            sh("git -C /repo checkout -- .")
            sh(f"cd {VERIF} && python3 lib/regen_all.py")
            if ev_saved is not None:      # the evidence of a run against a mutated tree is not evidence
                open(evf, "w").write(ev_saved)
    dst = os.path.join(VERIF, "seeded", name)
    os.makedirs(dst, exist_ok=True)
    shutil.copy(patch, os.path.join(dst, "patch.diff"))
    shutil.copy(os.path.join(sdir, "demo.cpp"), os.path.join(dst, "demo.cpp"))
    meta = {}
    try:
        meta = json.load(open(os.path.join(sdir, "meta.json")))
    except Exception:
        pass
    meta["confirmation"] = res
    json.dump(meta, open(os.path.join(dst, "meta.json"), "w"), indent=1)
    print(json.dumps(res, indent=1)[:3000])


if __name__ == "__main__":
    main()
