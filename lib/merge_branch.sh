#!/bin/bash
# usage: lib/merge_branch.sh <branch>   — merge an agent branch; generated files are regenerated.
set -e
cd "$(dirname "$0")/.."
git merge --no-edit "$1" >/dev/null 2>&1 || true
for f in lean/OpmVerif.lean lean/Driver/Main.lean MANIFEST.json known_findings.txt harness/common/vh.hpp $(git diff --name-only --diff-filter=U | grep '^evidence/' || true); do
  git checkout --ours -- "$f" 2>/dev/null || true
done
if git diff --name-only --diff-filter=U | grep -q .; then echo "UNRESOLVED CONFLICTS:"; git diff --name-only --diff-filter=U; exit 1; fi
python3 lib/regen_all.py >/dev/null
python3 lib/manifest_gen.py
git add -A
if git diff --cached --quiet && ! git rev-parse -q --verify MERGE_HEAD >/dev/null; then echo "nothing to commit"; else git commit -qm "merge $1"; fi
git status --short | head
