"""Orchestration shared by all property checks.

Verdict logic (DESIGN.md §0):
  regenerate Gen/*.lean  ->  build real code + harness  ->  lake build Props.Cxx + driver
  ->  audit (forbidden words, #print axioms)  ->  correspondence  ->  property mode on the
  implementation.  All green: exit 0.  Anything broken: search for a concrete failing input
  (property mode / model witness), print VIOLATION ... replay=<file>, exit 1; known findings
  (known_findings.txt) print KNOWN-FINDING and do not fail the check.
"""
import fcntl, hashlib, importlib, json, os, re, shutil, subprocess, sys, time

VERIF = os.path.dirname(os.path.dirname(os.path.abspath(__file__)))
REPO = os.environ.get("VERIF_REPO", "/repo")
LEAN = os.path.join(VERIF, "lean")
BUILD = os.path.join(VERIF, ".build")
OPM_BUILD = os.path.join(BUILD, "opm")
WORK = os.path.join(VERIF, ".work")
REPLAYS = os.path.join(VERIF, "replays")
EVIDENCE = os.path.join(VERIF, "evidence")
GUARD = "OPM_COMMON_VERIF"
ALLOWED_AXIOMS = {"propext", "Classical.choice", "Quot.sound"}
NCPU = os.cpu_count() or 4

sys.path.insert(0, VERIF)


def log(msg):
    print(f"[check] {msg}", flush=True)


class Lock:
    """flock-based mutex so concurrent checks do not run two builds in one tree."""

    def __init__(self, name):
        os.makedirs(BUILD, exist_ok=True)
        self.path = os.path.join(BUILD, name + ".lock")

    def __enter__(self):
        self.f = open(self.path, "w")
        fcntl.flock(self.f, fcntl.LOCK_EX)
        return self

    def __exit__(self, *a):
        fcntl.flock(self.f, fcntl.LOCK_UN)
        self.f.close()


def run(cmd, cwd=None, timeout=None, env=None, stdin=None, stdout=None):
    t0 = time.time()
    e = dict(os.environ)
    e.setdefault("LD_LIBRARY_PATH", "/root/miniconda/lib")
    if "/root/miniconda/lib" not in e["LD_LIBRARY_PATH"]:
        e["LD_LIBRARY_PATH"] += ":/root/miniconda/lib"
    if env:
        e.update(env)
    p = subprocess.run(cmd, cwd=cwd, timeout=timeout, env=e, stdin=stdin,
                       stdout=stdout if stdout is not None else subprocess.PIPE,
                       stderr=subprocess.STDOUT, text=True, errors="replace")
    return p.returncode, (p.stdout or ""), time.time() - t0


# ----------------------------------------------------------------------------
# translators

def regenerate(modules):
    """Run translators (python modules under translate/ with generate(repo)).
    Returns (ok, info) where info maps generated file -> {source: sha256}."""
    from translate import common
    info, errors = {}, []
    for name in modules:
        mod = importlib.import_module("translate." + name)
        try:
            res = mod.generate(REPO)
        except common.TranslateError as ex:
            errors.append(f"translate/{name}.py: {ex}")
            continue
        outs = res if isinstance(res, list) else [res]
        for r in outs:
            path = os.path.join(common.GEN_DIR, r["file"])
            changed = common.write_if_changed(path, r["text"])
            info[r["file"]] = {"changed": changed,
                               "sources": {os.path.relpath(s, REPO): common.sha256_file(s) for s in r["sources"]}}
    return (not errors), info, errors


# ----------------------------------------------------------------------------
# real code

OPM_BUILD_HARD = os.path.join(BUILD, "opm-hard")
HARD_FLAGS = "-D_GLIBCXX_ASSERTIONS -fsanitize=undefined -fno-sanitize-recover=all"
OPM_BUILD_ASAN = os.path.join(BUILD, "opm-asan")
ASAN_FLAGS = "-fsanitize=address -fno-omit-frame-pointer"


def cmake_configure(hard=False, asan=False):
    bdir = OPM_BUILD_ASAN if asan else (OPM_BUILD_HARD if hard else OPM_BUILD)
    if os.path.exists(os.path.join(bdir, "build.ninja")):
        return 0, ""
    os.makedirs(BUILD, exist_ok=True)
    flags = f"-O1 -fopenmp -pthread -pipe -Wno-error -D{GUARD}" + (f" -g1 {ASAN_FLAGS}" if asan else (f" -g1 {HARD_FLAGS}" if hard else ""))
    cmd = ["cmake", "-G", "Ninja", "-S", REPO, "-B", bdir, "-DCMAKE_BUILD_TYPE=None",
           f"-DCMAKE_CXX_FLAGS={flags}", "-DBUILD_TESTING=OFF", "-DOPM_ENABLE_PYTHON=OFF",
           "-DOPM_ENABLE_EMBEDDED_PYTHON=OFF", "-DBUILD_EXAMPLES=OFF", "-DUSE_MPI=OFF",
           "-Dfmt_DIR=/root/miniconda/lib/cmake/fmt", "-DCMAKE_PREFIX_PATH=/root/miniconda"]
    rc, out, _ = run(cmd)
    return rc, out


def build_opm(hard=False, asan=False):
    """Incremental out-of-tree build of libopmcommon.a from /repo's working tree (hooks on).
    hard=True: second build tree with UBSan (-fno-sanitize-recover) and libstdc++ assertions
    (bounds-checked operator[] on vector/string/array), used by the C20 check."""
    with Lock("opm-asan" if asan else ("opm-hard" if hard else "opm")):
        rc, out = cmake_configure(hard, asan)
        if rc != 0:
            return False, out
        rc, out, dt = run(["cmake", "--build", OPM_BUILD_ASAN if asan else (OPM_BUILD_HARD if hard else OPM_BUILD), "--target", "opmcommon", "-j", str(NCPU)])
        return rc == 0, out[-6000:]


OPM_LIBS = ["-L/root/miniconda/lib", "-lfmt", "-lboost_system", "-lboost_filesystem", "-lcjson", "-fopenmp", "-lpthread"]


def build_harness(name, extra_src=(), sanitize=False, extra_flags=(), hard=False, asan=False):
    """Compile harness/<name>.cpp against the freshly built library.  The binary is cached by
    the hash of (sources, library mtime, flags)."""
    src = os.path.join(VERIF, "harness", name + ".cpp")
    outdir = os.path.join(BUILD, "harness")
    os.makedirs(outdir, exist_ok=True)
    bdir = OPM_BUILD_ASAN if asan else (OPM_BUILD_HARD if hard else OPM_BUILD)
    lib = os.path.join(bdir, "lib", "libopmcommon.a")
    if asan:
        extra_flags = tuple(extra_flags) + tuple(ASAN_FLAGS.split()) + ("-g1", "-DVERIF_ASAN")
        name_tag = name + "-asan"
    elif hard:
        extra_flags = tuple(extra_flags) + tuple(HARD_FLAGS.split()) + ("-g1",)
        name_tag = name + "-hard"
    else:
        name_tag = name
    h = hashlib.sha256()
    for p in [src, os.path.join(VERIF, "harness", "common", "vh.hpp")] + list(extra_src):
        h.update(open(p, "rb").read())
    st = os.stat(lib)
    h.update(f"{st.st_mtime_ns}:{st.st_size}:{sanitize}:{extra_flags}".encode())
    tag = name_tag + ("-san" if sanitize else "")
    exe = os.path.join(outdir, f"{tag}-{h.hexdigest()[:12]}")
    if os.path.exists(exe):
        return True, exe, ""
    for old in os.listdir(outdir):
        if re.fullmatch(re.escape(tag) + r"-[0-9a-f]{12}", old):
            try:
                os.remove(os.path.join(outdir, old))
            except OSError:
                pass
    cmd = ["g++", "-std=c++17", "-O1", "-g0", f"-D{GUARD}", "-fopenmp", "-I", os.path.join(VERIF, "harness"),
           "-I", REPO, "-I", bdir, "-I", os.path.join(bdir, "include"), "-I", "/root/miniconda/include"]
    if sanitize:
        cmd += ["-fsanitize=address,undefined", "-fno-sanitize-recover=all", "-fno-omit-frame-pointer"]
    cmd += list(extra_flags) + [src] + list(extra_src) + [lib] + OPM_LIBS + ["-o", exe]
    rc, out, dt = run(cmd)
    return rc == 0, exe, out[-6000:]


# ----------------------------------------------------------------------------
# Lean

def lake_build(targets):
    with Lock("lake"):
        rc, out, dt = run(["lake", "build"] + list(targets), cwd=LEAN, timeout=3000)
    return rc == 0, out[-8000:], dt


def props_theorems(prop):
    """Names of all theorems in Props/<prop>.lean (fully qualified)."""
    path = os.path.join(LEAN, "OpmVerif", "Props", prop + ".lean")
    txt = strip_lean_comments(open(path).read())
    ns = re.search(r"^namespace\s+(\S+)", txt, re.M)
    prefix = ns.group(1) + "." if ns else ""
    return [prefix + m.group(1) for m in re.finditer(r"^theorem\s+([A-Za-z_][\w.']*)", txt, re.M)]


FORBIDDEN = re.compile(r"\b(sorry|admit|native_decide|bv_decide|implemented_by|unsafe)\b|^\s*axiom\s|maxHeartbeats\s+0\b", re.M)


def strip_lean_comments(txt):
    txt = re.sub(r"/-.*?-/", " ", txt, flags=re.S)
    txt = re.sub(r"--[^\n]*", " ", txt)
    return txt


def lean_closure(prop):
    """Lean files (under lean/OpmVerif) transitively imported by Props/<prop>.lean."""
    seen, todo = [], ["OpmVerif.Props." + prop]
    while todo:
        m = todo.pop()
        if m in seen or not m.startswith("OpmVerif"):
            continue
        path = os.path.join(LEAN, *m.split(".")) + ".lean"
        if not os.path.exists(path):
            continue
        seen.append(m)
        for im in re.findall(r"^import\s+(\S+)", open(path).read(), re.M):
            todo.append(im)
    return seen


def audit(prop):
    """Forbidden-word scan over the import closure + `#print axioms` of every Props theorem."""
    problems = []
    closure = lean_closure(prop)
    for m in closure:
        path = os.path.join(LEAN, *m.split(".")) + ".lean"
        body = strip_lean_comments(open(path).read())
        for hit in FORBIDDEN.finditer(body):
            problems.append(f"{m}: forbidden construct '{hit.group(0).strip()}'")
    thms = props_theorems(prop)
    if not thms:
        problems.append(f"Props/{prop}.lean states no theorem")
    audit_dir = os.path.join(LEAN, "Audit")
    os.makedirs(audit_dir, exist_ok=True)
    apath = os.path.join(audit_dir, prop + ".lean")
    with open(apath, "w") as f:
        f.write(f"import OpmVerif.Props.{prop}\n")
        for t in thms:
            f.write(f"#print axioms {t}\n")
    rc, out, dt = run(["lake", "env", "lean", apath], cwd=LEAN, timeout=1200)
    axioms = {}
    cur = None
    for line in out.splitlines():
        m = re.match(r"'([^']+)' depends on axioms: \[(.*)\]", line)
        m2 = re.match(r"'([^']+)' does not depend on any axioms", line)
        if m:
            axioms[m.group(1)] = [a.strip() for a in m.group(2).split(",") if a.strip()]
        elif m2:
            axioms[m2.group(1)] = []
    # multi-line axiom lists
    for m in re.finditer(r"'([^']+)' depends on axioms: \[([^\]]*)\]", out, re.S):
        axioms[m.group(1)] = [a.strip() for a in m.group(2).replace("\n", " ").split(",") if a.strip()]
    if rc != 0:
        problems.append("audit file failed to elaborate: " + out[-500:])
    for t in thms:
        if t not in axioms:
            problems.append(f"no axiom report for {t}")
        else:
            bad = [a for a in axioms[t] if a not in ALLOWED_AXIOMS]
            if bad:
                problems.append(f"{t} depends on non-standard axioms {bad}")
    return problems, axioms, thms, closure


def driver_path():
    return os.path.join(LEAN, ".lake", "build", "bin", "driver")


def run_driver(ops_path, out_path, timeout=3000):
    with open(ops_path) as fin, open(out_path, "w") as fout:
        p = subprocess.run([driver_path()], stdin=fin, stdout=fout, stderr=subprocess.PIPE, timeout=timeout)
    return p.returncode, p.stderr.decode(errors="replace")


def diff_lines(ops_path, impl_path, model_path, limit=20):
    """Compare impl and model answers line by line.  Returns (n, disagreements[list of dict])."""
    dis = []
    n = 0
    with open(ops_path) as fo, open(impl_path) as fi, open(model_path) as fm:
        while True:
            o, i, m = fo.readline(), fi.readline(), fm.readline()
            if not o and not i and not m:
                break
            n += 1
            if i.rstrip("\n") != m.rstrip("\n"):
                if len(dis) < limit:
                    dis.append({"line": n, "op": o.rstrip("\n"), "impl": i.rstrip("\n"), "model": m.rstrip("\n")})
                else:
                    dis.append(None)
    total = len(dis)
    return n, [d for d in dis if d is not None], total


def shorten(s, k=160):
    return s if len(s) <= k else s[:k // 2] + f"...[{len(s)} chars]..." + s[-k // 2:]


# ----------------------------------------------------------------------------
# known findings

def load_known(prop):
    path = os.path.join(VERIF, "known_findings.txt")
    known = {}
    if os.path.exists(path):
        for line in open(path):
            line = line.strip()
            m = re.match(r"finding:\s+property=(\S+)\s+key=(\S+)\s+(.*)", line)
            if m and m.group(1) == prop:
                known[m.group(2)] = m.group(3)
    return known


# ----------------------------------------------------------------------------
# context / verdict

class Ctx:
    def __init__(self, prop, tier, seed, replay=None):
        self.prop, self.tier, self.seed, self.replay = prop, tier, seed, replay
        self.t0 = time.time()
        self.work = os.path.join(WORK, prop)
        shutil.rmtree(self.work, ignore_errors=True)
        os.makedirs(self.work, exist_ok=True)
        os.makedirs(REPLAYS, exist_ok=True)
        self.broken = []        # list of (kind, detail): what no longer checks
        self.violations = []    # list of dict(key, detail, replay_payload)
        self.cov = {}
        self.assumptions = []
        self.samples = []
        self.notes = []

    # -- recording ---------------------------------------------------------
    def tie_broken(self, kind, detail):
        log(f"TIE BROKEN [{kind}] {detail[:2000]}")
        self.broken.append((kind, detail))

    def violation(self, key, detail, payload=None):
        self.violations.append({"key": key, "detail": detail, "payload": payload})

    # -- standard stages ------------------------------------------------------
    def stage_translate(self, modules):
        ok, info, errors = regenerate(modules)
        self.cov["generated"] = info
        for e in errors:
            self.tie_broken("translator", e)
        return ok

    def stage_build_opm(self):
        ok, out = build_opm()
        if not ok:
            # the tree does not compile: outside the task's quantifier, but report clearly
            self.tie_broken("build", "real code failed to build:\n" + out[-3000:])
        return ok

    def stage_lean(self, extra_targets=("driver",)):
        from lib import gen_driver
        gen_driver.main()
        targets = [f"OpmVerif.Props.{self.prop}"] + list(extra_targets)
        ok, out, dt = lake_build(targets)
        self.cov["lean_build_s"] = round(dt, 1)
        if not ok:
            failing = re.findall(r"error: (.*)", out)
            self.tie_broken("proof", "lake build failed: " + "\n".join(failing[:12]) + "\n" + out[-1500:])
        return ok

    def stage_audit(self):
        problems, axioms, thms, closure = audit(self.prop)
        self.cov["theorems"] = thms
        self.cov["axioms"] = axioms
        self.cov["lean_modules"] = closure
        for p in problems:
            self.tie_broken("audit", p)
        return not problems

    def stage_correspondence(self, exe, args, label="corr", timeout=3000):
        """Run harness (writes ops/impl/stats into a dir), the model driver, and diff."""
        outdir = os.path.join(self.work, label)
        os.makedirs(outdir, exist_ok=True)
        rc, out, dt = run([exe] + [str(a) for a in args] + [outdir], timeout=timeout)
        if rc != 0:
            kept = self._keep_current_input(outdir)
            self.tie_broken("harness", f"{os.path.basename(exe)} {label} exited {rc}: {out[-2000:]}")
            self.violation(f"harness-crash.{label}", f"harness aborted (exit {rc}) — a signal or sanitizer abort in the real code is a result; killing input: {kept}; {out[-800:]}",
                           {"cmd": [exe] + [str(a) for a in args], "killing_input": kept, "output": out[-4000:]})
            return False
        ops, impl, model = (os.path.join(outdir, x) for x in ("ops.txt", "impl.txt", "model.txt"))
        rc, err = run_driver(ops, model)
        if rc != 0:
            self.tie_broken("driver", f"model driver exited {rc}: {err[-1000:]}")
            return False
        n, dis, total = diff_lines(ops, impl, model)
        stats = {}
        try:
            stats = json.load(open(os.path.join(outdir, "stats.json")))
        except Exception:
            pass
        c = self.cov.setdefault("correspondence", {})
        c[label] = {"lines": n, "disagreements": total, "distribution": stats, "harness_s": round(dt, 1)}
        with open(ops) as f:
            for k, line in enumerate(f):
                if k in (0, n // 2, n - 1):
                    self.samples.append({"op": shorten(line.strip(), 200)})
        if total:
            for d in dis[:5]:
                self.tie_broken("correspondence", f"line {d['line']}: op={shorten(d['op'])} impl={shorten(d['impl'])} model={shorten(d['model'])}")
            self.cov["correspondence"][label]["first_disagreements"] = [
                {k: shorten(str(v), 400) for k, v in d.items()} for d in dis[:5]]
            self._disagreements = getattr(self, "_disagreements", []) + dis
        return total == 0

    def _keep_current_input(self, outdir):
        kept = []
        for fn in sorted(os.listdir(outdir)) if os.path.isdir(outdir) else []:
            if fn.startswith("current_input"):
                dst = os.path.join(REPLAYS, f"{self.prop}-{time.strftime('%Y%m%d-%H%M%S')}-{fn}")
                try:
                    shutil.copy(os.path.join(outdir, fn), dst)
                    kept.append(dst)
                except OSError:
                    pass
        return kept

    def stage_property_mode(self, exe, args, label="prop", timeout=1500, env=None):
        """Run the harness's property mode: it evaluates the property's own statement on the
        real code and writes FAIL lines `FAIL <key> <detail>` to prop.txt."""
        outdir = os.path.join(self.work, label)
        os.makedirs(outdir, exist_ok=True)
        rc, out, dt = run([exe] + [str(a) for a in args] + [outdir], timeout=timeout, env=env)
        if rc != 0:
            kept = self._keep_current_input(outdir)
            self.violation(f"harness-crash.{label}", f"property-mode harness aborted (exit {rc}) - a signal, sanitizer/assertion abort or timeout in the real code is a result; killing input: {kept}; output tail: {out[-800:]}",
                           {"cmd": [exe] + [str(a) for a in args], "killing_input": kept, "output": out[-4000:]})
            return False
        fails = []
        pfile = os.path.join(outdir, "prop.txt")
        if os.path.exists(pfile):
            for line in open(pfile):
                if line.startswith("FAIL "):
                    parts = line.rstrip("\n").split(" ", 2)
                    fails.append((parts[1], parts[2] if len(parts) > 2 else ""))
        stats = {}
        try:
            stats = json.load(open(os.path.join(outdir, "prop_stats.json")))
        except Exception:
            pass
        self.cov.setdefault("property_mode", {})[label] = {"stats": stats, "failures": len(fails), "harness_s": round(dt, 1)}
        for key, detail in fails:
            self.violation(key, detail, {"harness": os.path.basename(exe), "args": [str(a) for a in args], "key": key})
        return not fails

    # -- verdict ---------------------------------------------------------------
    def finish(self, level="proof", trusted_base=(), checker_cmd=None, extra_cov=None):
        known = load_known(self.prop)
        real = [v for v in self.violations if v["key"] not in known]
        listed = [v for v in self.violations if v["key"] in known]
        for v in listed:
            print(f"KNOWN-FINDING: property={self.prop} {v['key']}: {known[v['key']]}", flush=True)
        thms = self.cov.get("theorems", [])
        proof_broken = [b for b in self.broken if b[0] in ("proof", "audit", "translator")]
        obligations = len(thms) + len(self.cov.get("generated", {}))
        discharged = 0 if proof_broken else obligations
        exit_code = 0
        lines = []
        stamp = time.strftime("%Y%m%d-%H%M%S")
        if real:
            # concrete failing inputs found on the implementation
            seen = set()
            for v in real:
                if v["key"] in seen:
                    continue
                seen.add(v["key"])
                if len(seen) > 5:
                    break
                rp = os.path.join(REPLAYS, f"{self.prop}-{stamp}-{len(seen)}.json")
                json.dump({"property": self.prop, "key": v["key"], "detail": v["detail"], "payload": v["payload"],
                           "seed": self.seed, "tier": self.tier, "broken": [list(b) for b in self.broken][:10]}, open(rp, "w"), indent=1)
                lines.append(f"VIOLATION property={self.prop} replay={rp}")
            exit_code = 1
        elif self.broken:
            rp = os.path.join(REPLAYS, f"{self.prop}-{stamp}-tie.json")
            json.dump({"property": self.prop, "no_failing_input_found": True,
                       "what_no_longer_checks": [{"kind": k, "detail": d[:4000]} for k, d in self.broken],
                       "searched": self.cov.get("property_mode", {}), "seed": self.seed, "tier": self.tier}, open(rp, "w"), indent=1)
            lines.append(f"VIOLATION property={self.prop} replay={rp} no-failing-input-found")
            exit_code = 1
        cov = {
            "obligations": max(obligations, 1),
            "discharged": discharged if not self.broken else min(discharged, max(obligations - 1, 0)),
            "checker_cmd": checker_cmd or f"cd lean && lake build OpmVerif.Props.{self.prop} && lake env lean Audit/{self.prop}.lean",
            "trusted_base": list(trusted_base),
            "samples": self.samples[:8] if self.samples else [{"theorems": thms[:5]}],
        }
        cov.update(self.cov)
        if extra_cov:
            cov.update(extra_cov)
        corr = self.cov.get("correspondence", {})
        cov["evaluations"] = sum(v.get("lines", 0) for v in corr.values()) + sum(
            (v.get("stats", {}) or {}).get("checked", 0) for v in self.cov.get("property_mode", {}).values())
        ev = {
            "property_id": self.prop, "tier": self.tier, "seed": self.seed, "level": level,
            "coverage": cov, "assumptions": self.assumptions, "wall_s": round(time.time() - self.t0, 1),
            "violations": len(real) + (1 if (self.broken and not real) else 0),
            "known_findings_matched": [v["key"] for v in listed],
            "notes": self.notes,
        }
        os.makedirs(EVIDENCE, exist_ok=True)
        json.dump(ev, open(os.path.join(EVIDENCE, self.prop + ".json"), "w"), indent=1)
        for l in lines:
            print(l, flush=True)
        if exit_code == 0:
            log(f"{self.prop} {self.tier}: OK  ({len(thms)} theorems, wall {ev['wall_s']} s)")
        return exit_code
