#!/usr/bin/env python3
"""Regenerates MANIFEST.json from lib/manifest_entries.py (one entry per claimed property)
so that the file stays valid while properties are added one by one."""
import json, os, sys
HERE = os.path.dirname(os.path.abspath(__file__))
sys.path.insert(0, os.path.dirname(HERE))
ROOT = os.path.dirname(HERE)
CHECKS = {}
for fn in sorted(os.listdir(os.path.join(ROOT, "manifest.d"))):
    if fn.endswith(".json") and fn[0] == "C":
        CHECKS[fn[:-5]] = json.load(open(os.path.join(ROOT, "manifest.d", fn)))
extra = json.load(open(os.path.join(ROOT, "manifest.d", "_global.json")))
NOT_YET, HOOK_COMMITS = extra.get("not_applicable", {}), extra.get("hook_commits", [])

ALL = [f"C{n:02d}" for n in range(1, 21)]
checks = []
for pid in ALL:
    if pid not in CHECKS:
        continue
    c = CHECKS[pid]
    checks.append({
        "property_id": pid,
        "quick_cmd": f"./check {pid} --tier quick",
        "thorough_cmd": f"./check {pid} --tier thorough",
        "evidence_file": f"evidence/{pid}.json",
        "replay_cmd_template": f"./check {pid} --replay {{path}}",
        "engine": "lean4-proof+correspondence",
        "level_claimed": {"category": ("proof" if str(c.get("category", "proof")).startswith("proof") else c["category"]),
                          "text": c["text"], "design_ref": c["design_ref"]},
        "level_note": c["note"],
        "technique": c["technique"],
    })
na = [{"property_id": p, "reason": NOT_YET.get(p, "not built yet at this commit; see DESIGN.md §4 for the plan")}
      for p in ALL if p not in CHECKS]
m = {
    "version": 1,
    "setup_cmd": "./setup.sh",
    "hooks": {
        "guard": "OPM_COMMON_VERIF",
        "enable": "checks build /repo out of tree in /verif/.build/opm with -DOPM_COMMON_VERIF in CMAKE_CXX_FLAGS (lib/vlib.py: cmake_configure)",
        "baseline_off_cmd": "cmake --build /repo/_build -j16 -- -k 0 ; ctest --test-dir /repo/_build -j8 --timeout 900",
        "source_commits": HOOK_COMMITS,
        "add_only": True,
    },
    "engines": [{
        "name": "lean4-proof+correspondence",
        "path": "lean/ (model, proofs, property theorems), translate/ (source->Lean), harness/ (C++ drivers of the real code), lib/vlib.py",
        "serves_properties": [c["property_id"] for c in checks],
        "kind_free_text": "Lean 4 theorems about an executable model; model tied to /repo by translators regenerated every run and by line-protocol differential correspondence with the real code",
    }],
    "checks": checks,
    "not_applicable": na,
    "notes": "See DESIGN.md. Every check regenerates Gen/*.lean from /repo, rebuilds libopmcommon.a out of tree from the working tree, rebuilds the Lean theorems, audits axioms, runs the correspondence and the property-mode search.",
}
CATS = ["exploration", "fault_enumeration", "model_checking", "proof", "translation_validation", "other"]
for c in checks:
    assert c["level_claimed"]["category"] in CATS, c
    for k in ("property_id", "quick_cmd", "evidence_file", "level_note"):
        assert isinstance(c[k], str) and c[k], (c["property_id"], k)
json.dump(m, open(os.path.join(os.path.dirname(HERE), "MANIFEST.json"), "w"), indent=1)
print("MANIFEST.json:", len(checks), "checks,", len(na), "not_applicable")
