"""Per-property MANIFEST entries (kept here so that MANIFEST.json can be regenerated)."""

HOOK_COMMITS = []

NOT_YET = {}

CHECKS = {
    "C07": {
        "text": "Lean 4 theorems over a bit-exact model of the unformatted codec (writer, reader, skipping indexer): decode(encode xs) = xs for every list of arrays of every type and length; sizeOnDiskBinary = bytes written; encoder = published layout. Model tied to the code by a translator for EclIOdata.hpp (every run) and by byte-exact correspondence with the real EclOutput/EclFile (valid, truncated and mutated files); the property's own round trip and an independent layout parser run on the real code for formatted and unformatted, ECL and IX.",
        "design_ref": "DESIGN.md §4 C07",
        "note": "Trusted: Lean kernel (+ propext/Classical.choice/Quot.sound), translate/eclio.py, harness/eclio.cpp, differ. Formatted REAL/DOUB digit generation (snprintf/strtod) is a parameter of the model: the formatted side is decided by the property-mode round trip on the real code, not by a theorem. X231 (>= 2^31 elements) headers modelled, not exercised.",
        "technique": "Lean 4 proof (induction over array lists and block loop) + translator + byte-exact differential correspondence",
    },
}
