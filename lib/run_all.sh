#!/bin/bash
# Runs every registered quick (or thorough) check on the current tree and prints one line each.
cd "$(dirname "$0")/.."
tier=${1:-quick}
for p in $(python3 -c "import json; print(' '.join(c['property_id'] for c in json.load(open('MANIFEST.json'))['checks']))"); do
  s=$(date +%s); out=$(./check $p --tier $tier 2>&1 | grep -E "^\[check\] C|^VIOLATION|^KNOWN" | cut -c1-150 | tr '\n' ' '); e=$(date +%s)
  echo "$p $((e-s))s $out"
done
