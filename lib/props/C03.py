"""C03 — The schedule is causal: state at step k depends only on input up to step k.  (proof, partial)"""
import json
from .. import vlib

TRUSTED = [
    "Lean 4.33 kernel; axioms per theorem under coverage.axioms (subset of propext, Classical.choice, Quot.sound)",
    "translate/handlers.py (syntactic scan of the schedule handlers -> Gen/HandlerEffects.lean: reference bindings, every selector of `snapshots` other than back()/[current step], container-level mutations of the snapshot vector, uses of names bound from a non-current snapshot (aliases propagated), global writes, the known in-place WellConnections mutators; it does not see arbitrary aliasing through function calls)",
    "harness/schedule.cpp (generator, canonical dump of the observation record, real ScheduleDeck block dump with and without ScheduleRestartInfo) + differ; Model/SchedIO.lean (parser/printer of the line protocol, IEEE evaluation of the symbolic number expressions add/mul the model builds)",
    "partial: 23 record operations (WELSPECS incl. regrouping and head change, COMPDAT, COMPLUMP, WPIMULT both forms, WELOPEN both forms, WCONPROD, WCONINJE, WCONHIST, WCONINJH, WHISTCTL, WELTARG, WEFAC, WECON, WTEST, WLIST, GRUPTREE, GEFAC, GCONPROD, GCONINJE, NEXTSTEP, UDQ ASSIGN/DEFINE/UNITS registry, ACTIONX registry) plus COMPORD (first COMPORD keyword of the well's own report step), the connection ordering TRACK/DEPTH/INPUT with the connection sequence WellConnections::order() produces after COMPDAT, the WELL_STATUS_CHANGE events, and the multisegment keywords WELSEGS / WSEGVALV / WSEGSICD / WSEGAICD (per-well segment sets with valve / ICD devices) have a concrete model; for every other keyword and ScheduleState member causality rests on the heap frame theorem + the effect table + the property-mode search on the real code",
    "modelled, not verified: events other than the ACTIONX marker and WELL_STATUS_CHANGE, VFP/THP/ALQ, guide rates, UDQ-valued items and UDQ evaluation, WELTARG THP/VFP/LIFT/GUID, has_produced/has_injected, the connection sequence of wells whose head a later WELSPECS moved and of DEPTH-ordered wells with more than 16 connections (printed sorted by cell on both sides), depth represented by the layer index (layer-cake grid of the generator), order() after WELOPEN/COMPLUMP/WPIMULT taken as the identity on an ordered well (C06 order_idempotent), COMPDAT with defaulted I,J after a WELSPECS head change, loading the restart step from a restart file (the restart theorems are about the partition only), Float arithmetic of times (TSTEP values are exact binary fractions in the generator), COMPSEGS (segment of each connection, perforation lengths), ICD strength / scaling factor, valve additional length, a re-issued WELSEGS, COMPDAT on a multisegment well after COMPSEGS, devices on the top segment (compared on the real code in property mode only)",
]


def run(ctx):
    ctx.assumptions += ["causal: non-restarted runs (rst_info.report_step = 0); the partition theorems also cover restart/SKIPREST", "cut points are DATES/TSTEP keyword boundaries",
                        "observation record as listed in design.d/C03.md (third round: with COMPORD order, connection sequence, status-change events; fourth round: segment sets of multisegment wells); every state is dumped after the whole deck has been processed; ScheduleState::operator== on the implementation side"]
    ctx.stage_translate(["handlers"])
    if not ctx.stage_build_opm():
        return ctx.finish(trusted_base=TRUSTED)
    ok, exe, out = vlib.build_harness("schedule")
    if not ok:
        ctx.tie_broken("harness", "schedule harness does not compile: " + out[-2000:])
        return ctx.finish(trusted_base=TRUSTED)
    if ctx.stage_lean():
        ctx.stage_audit()
        ctx.stage_correspondence(exe, ["corr", ctx.seed, ctx.tier])
    ctx.stage_property_mode(exe, ["prop", ctx.seed, ctx.tier])
    return ctx.finish(trusted_base=TRUSTED)


def replay(ctx, path):
    print(json.dumps(json.load(open(path)), indent=1)[:4000])
    return run(ctx)
