"""C03 — The schedule is causal: state at step k depends only on input up to step k.  (proof, partial)"""
import json
from .. import vlib

TRUSTED = [
    "Lean 4.33 kernel; axioms per theorem under coverage.axioms (subset of propext, Classical.choice, Quot.sound)",
    "translate/handlers.py (syntactic scan of the schedule handlers -> Gen/HandlerEffects.lean; may over- or under-approximate: it sees reference bindings, snapshot indexing, global writes and the known in-place WellConnections mutators, not arbitrary aliasing)",
    "harness/schedule.cpp (generator, canonical dump of the observation record, real ScheduleDeck block dump) + differ",
    "partial: only WELSPECS, COMPDAT, WCONPROD, WCONINJE, WELOPEN, WELTARG, WEFAC, GRUPTREE, GEFAC, GCONPROD and the ACTIONX registry have a concrete model (observation record: well order/group/status/role/control mode/targets/efficiency factor/connections, group tree/controls/efac, action names); for every other keyword and ScheduleState member causality rests on the heap frame theorem + the effect table + the property-mode search on the real code",
    "modelled, not verified: restart/SKIPREST partition variant, injector->producer role switch, well head changes, events other than the ACTIONX marker, UDQ-valued items, Float arithmetic of times (TSTEP values are exact binary fractions in the generator)",
]


def run(ctx):
    ctx.assumptions += ["non-restarted runs (rst_info.report_step = 0)", "cut points are DATES/TSTEP keyword boundaries",
                        "observation record as listed in design.d/C03.md; ScheduleState::operator== on the implementation side"]
    ctx.stage_translate(["handlers"])
    if not ctx.stage_build_opm():
        return ctx.finish(trusted_base=TRUSTED)
    ok, exe, out = vlib.build_harness("schedule")
    if not ok:
        ctx.tie_broken("harness", "schedule harness does not compile: " + out[-2000:])
        return ctx.finish(trusted_base=TRUSTED)
    if ctx.stage_lean():
        ctx.stage_audit()
        ctx.stage_correspondence(exe, ["corr", ctx.seed, ctx.tier])
    ctx.stage_property_mode(exe, ["prop", ctx.seed, ctx.tier])
    return ctx.finish(trusted_base=TRUSTED)


def replay(ctx, path):
    print(json.dumps(json.load(open(path)), indent=1)[:4000])
    return run(ctx)
