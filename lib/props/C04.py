"""C04 — Applying an ACTIONX equals inlining its keywords; earlier steps are immutable.  (proof)"""
import json
from .. import vlib

TRUSTED = [
    "Lean 4.33 kernel; axioms per theorem under coverage.axioms (subset of propext, Classical.choice, Quot.sound)",
    "the C03 core semantics (Model/SchedCore, 23 record operations incl. the deferred WPIMULT and end_report, COMPORD / connection ordering, WELL_STATUS_CHANGE events; byte-for-byte correspondence there) and Model/SchedAction",
    "harness/schedule.cpp (acorr: real Schedule::applyAction incl. sequences vs model; aprop: real applyAction vs real Schedule of the inlined deck, generated and shipped decks; bodies with COMPDAT / WELOPEN on connections / WPIMULT are compared in full — record, member-wise wells/groups, all events — when closing step n was void: no all-default WPIMULT record in block n and no well of state n with all connections shut (closingVoid, sufficient for the hypothesis Closed s1 of apply_eq_inline_closed_step), else in the past only) + differ; Model/SchedIO.lean",
    "states are compared with Sim (equal property channel, equal connection channel, equal status of every well, marker ignored); sim_observation proves that Sim states with equal markers print the same observation record",
    "scope: apply_eq_inline / apply_sequence: bodies over the modelled keyword set without COMPDAT / WELOPEN-on-connections / WPIMULT (the property's own exception; COMPLUMP is covered); apply_eq_inline_closed_step(_events): any body at a step whose own keywords left it closed; apply_closes_steps: any body, any step; non-decreasing steps; '?' is resolved once per application in the model (handler-time in the C++; differs only for wells the body itself creates)",
    "modelled, not verified: PYACTION, WELPI/WTMULT and other unmodelled body keywords (property mode only), events other than the ACTIONX marker and WELL_STATUS_CHANGE (property mode compares all), SimulatorUpdate flags other than affected wells, action_wgnames visibility of later ACTIONX blocks after a resize",
]


def run(ctx):
    ctx.assumptions += ["non-restarted runs", "action bodies over the modelled keyword set; matching wells exist at the action step", "every cell a re-iterated COMPDAT can reach is known to the run-time ScheduleGrid (the generators prefetch the whole grid through a never-applied action ZPRE; observation design.d/C04.md)", "WELSPECS '?' / WLIST '?' inside action bodies (order of the '?' expansion): property mode only, applied with a non-empty match set",
                        "inlined deck = substituted body inserted before the time keyword that closes block n (steps inside a multi-record DATES/TSTEP are skipped in property mode)"]
    ctx.stage_translate(["handlers"])
    if not ctx.stage_build_opm():
        return ctx.finish(trusted_base=TRUSTED)
    ok, exe, out = vlib.build_harness("schedule")
    if not ok:
        ctx.tie_broken("harness", "schedule harness does not compile: " + out[-2000:])
        return ctx.finish(trusted_base=TRUSTED)
    if ctx.stage_lean():
        ctx.stage_audit()
        ctx.stage_correspondence(exe, ["acorr", ctx.seed, ctx.tier])
    ctx.stage_property_mode(exe, ["aprop", ctx.seed, ctx.tier])
    return ctx.finish(trusted_base=TRUSTED)


def replay(ctx, path):
    print(json.dumps(json.load(open(path)), indent=1)[:4000])
    return run(ctx)
