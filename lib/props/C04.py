"""C04 — Applying an ACTIONX equals inlining its keywords; earlier steps are immutable.  (proof, partial)"""
import json
from .. import vlib

TRUSTED = [
    "Lean 4.33 kernel; axioms per theorem under coverage.axioms (subset of propext, Classical.choice, Quot.sound)",
    "the C03 core semantics (Model/SchedCore, byte-for-byte correspondence there) and Model/SchedAction",
    "harness/schedule.cpp (acorr: real Schedule::applyAction incl. sequences vs model; aprop: real applyAction vs real Schedule of the inlined deck) + differ",
    "partial: apply_eq_inline is proved under 'end_report shut nothing at step n'; the sequence clause is proved for immutability of the past only; '?' is resolved once per application in the model (handler-time in the C++); action bodies over WELOPEN/WCONPROD/WCONINJE/WELTARG/WEFAC/GCONPROD/GRUPTREE/COMPDAT only",
    "modelled, not verified: PYACTION, WELPI (simulator-supplied PI; see finding actionx-welpi-rescales-past), SimulatorUpdate flags other than affected wells, action_wgnames visibility of later ACTIONX blocks after a resize",
]


def run(ctx):
    ctx.assumptions += ["non-restarted runs", "action bodies over the core keyword set; matching wells exist at the action step",
                        "inlined deck = substituted body inserted before the time keyword that closes block n (steps inside a multi-record DATES/TSTEP are skipped in property mode)"]
    ctx.stage_translate(["handlers"])
    if not ctx.stage_build_opm():
        return ctx.finish(trusted_base=TRUSTED)
    ok, exe, out = vlib.build_harness("schedule")
    if not ok:
        ctx.tie_broken("harness", "schedule harness does not compile: " + out[-2000:])
        return ctx.finish(trusted_base=TRUSTED)
    if ctx.stage_lean():
        ctx.stage_audit()
        ctx.stage_correspondence(exe, ["acorr", ctx.seed, ctx.tier])
    ctx.stage_property_mode(exe, ["aprop", ctx.seed, ctx.tier])
    return ctx.finish(trusted_base=TRUSTED)


def replay(ctx, path):
    print(json.dumps(json.load(open(path)), indent=1)[:4000])
    return run(ctx)
