"""C15 — Saturation functions honour tables, end-point scaling and hysteresis rules."""
import json
from .. import vlib

TRUSTED = [
    "Lean 4.33 kernel; axioms per theorem under coverage.axioms (subset of propext, Classical.choice, Quot.sound)",
    "harness/satfunc.cpp (real PiecewiseLinearTwoPhaseMaterial / EclEpsTwoPhaseLaw / EclHysteresisTwoPhaseLaw templates instantiated directly) + lib/vlib.py differ; model driver (compiled Lean at IEEE double, operation order mirrored, bit-exact comparison)",
    "Float ~ R: theorems are over a linearly ordered field",
    "modelled, not verified: EclMaterialLawManager (deck -> tables, family I/II conversion, end-point defaults from SatfuncPropertyInitializers), three-phase combination (Default/Stone1/Stone2), Killough (kr models 2-4), WAG and capillary-pressure hysteresis",
]


def run(ctx):
    ctx.assumptions += [
        "tables: Sw strictly increasing, krw non-decreasing, krn and pc non-increasing",
        "hysteresis: Carlson (krHysteresisModel 0/1), pc hysteresis off, no WAG",
    ]
    if not ctx.stage_build_opm():
        return ctx.finish(trusted_base=TRUSTED)
    ok, exe, out = vlib.build_harness("satfunc")
    if not ok:
        ctx.tie_broken("harness", "satfunc harness does not compile: " + out[-2000:])
        return ctx.finish(trusted_base=TRUSTED)
    if ctx.stage_lean():
        ctx.stage_audit()
        ctx.stage_correspondence(exe, ["corr", ctx.seed, ctx.tier])
    ctx.stage_property_mode(exe, ["prop", ctx.seed, ctx.tier])
    return ctx.finish(trusted_base=TRUSTED)


def replay(ctx, path):
    print(json.dumps(json.load(open(path)), indent=1)[:4000])
    return run(ctx)
