"""C15 — Saturation functions honour tables, end-point scaling and hysteresis rules."""
import json
from .. import vlib

TRUSTED = [
    "Lean 4.33 kernel; axioms per theorem under coverage.axioms (subset of propext, Classical.choice, Quot.sound)",
    "harness/satfunc.cpp (real PiecewiseLinearTwoPhaseMaterial / EclEpsTwoPhaseLaw / EclHysteresisTwoPhaseLaw templates instantiated directly) + lib/vlib.py differ; model driver (compiled Lean at IEEE double, operation order mirrored, bit-exact comparison)",
    "harness/satdeck.cpp (random decks -> real Parser -> EclipseState -> EclMaterialLawManager::initFromState/initParamsForElements; hands the model the tables as the TableManager holds them and the end-point arrays as the field properties hold them, both in SI: the text -> number and unit conversion steps belong to C01/C16/C19, not to this check)",
    "Float ~ R: theorems are over a linearly ordered field",
    "modelled, not verified: Stone 1 / Stone 2; the two-phase (oil-water, gas-water) multiplexer branches at deck level are reached by the property mode only (prop_deck section 9; no model / correspondence; the gas-water hysteresis object is modelled and corresponded at template level only; gas-water decks with ENDSCALE are outside), LET and SLGOF / family III tables, JFUNC (Leverett) and SWATINIT / PPCWMAX, ENPTVD/ENKRVD depth tables, directional (KRNUMX..) and LGR lookups, WAG hysteresis",
]


def run(ctx):
    ctx.assumptions += [
        "tables: Sw strictly increasing, krw non-decreasing, krn and pc non-increasing; first relperm sample of every increasing column <= TOLCRIT (otherwise crit_sat_increasing_KR reads sat[-1]) and last sample of every decreasing column <= TOLCRIT",
        "a non-empty two-phase mobile range (table SWCR < 1 - SOWCR - SGL etc.): otherwise the three-point vertical scaling divides 0 by 0 (the deck generator of the property mode keeps to it; the correspondence does not and compares NaN with NaN)",
        "PCW / PCG only for regions whose table has a non-zero maximum capillary pressure (else 0 * (PCW / 0) = NaN, design.d/C15.md finding F-C15-1)",
        "hysteresis: EHYSTR item 2 = 0..4, flag KR / PC / BOTH at template and deck level (complete EclHysteresisTwoPhaseLawParams object, Model/HystFull.lean); no WAG; the Killough statements of the property mode apply where the imbibition critical saturation is not below the drainage one (decided from the input end-points)",
        "three phases, default three-phase oil relperm model (model, correspondence); two-phase oil-water and gas-water decks in the property mode only",
        "Killough statements at deck level (prop_deck section 8): where Land's formula is defined — Sncrd <= Sncri < Snmaxd and Snhy <= Snmaxd, decided from the end-points of two non-hysteretic decks; a continuous start of the scanning curve is required only where the imbibition curve meets the drainage curve at the drainage maximum gas saturation (Props.C15.killough_krn_scan_start: iff)",
        "cells that scale only a subset of their end-points (property mode): the eight saturation end-points of the cell stay ordered; three-point vertical scaling (KRWR/KRGR/KRORW/KRORG) only where the table has 0 < KRxR < KRx and the cell's three scaling points of that curve are distinct (KRxR and KRx given for one and the same saturation is contradictory input)",
    ]
    if not ctx.stage_build_opm():
        return ctx.finish(trusted_base=TRUSTED)
    ok, exe, out = vlib.build_harness("satfunc")
    if not ok:
        ctx.tie_broken("harness", "satfunc harness does not compile: " + out[-2000:])
        return ctx.finish(trusted_base=TRUSTED)
    ok2, exe2, out2 = vlib.build_harness("satdeck")
    if not ok2:
        ctx.tie_broken("harness", "satdeck harness does not compile: " + out2[-2000:])
    if ctx.stage_lean():
        ctx.stage_audit()
        ctx.stage_correspondence(exe, ["corr", ctx.seed, ctx.tier])
        if ok2:
            ctx.stage_correspondence(exe2, ["corr", ctx.seed, ctx.tier], label="corr_deck")
    ctx.stage_property_mode(exe, ["prop", ctx.seed, ctx.tier])
    if ok2:
        ctx.stage_property_mode(exe2, ["prop", ctx.seed, ctx.tier], label="prop_deck")
    return ctx.finish(trusted_base=TRUSTED)


def replay(ctx, path):
    print(json.dumps(json.load(open(path)), indent=1)[:4000])
    return run(ctx)
