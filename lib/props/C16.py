"""C16 — Automatic differentiation returns exact values and derivatives in every variant."""
import json, os
from .. import vlib

TRUSTED = [
    "Lean 4.33 kernel; axioms per theorem listed under coverage.axioms (subset of propext, Classical.choice, Quot.sound)",
    "translate/densead.py (C++ subset parser + symbolic executor for Evaluation*.hpp, DynamicEvaluation.hpp, Math.hpp -> Gen/DenseAd.lean), "
    "validated on every run by the bit-exact correspondence of the generated definitions (at Float) with the real classes",
    "harness/densead.cpp (tree / comparison / factory generators, independent dual-number evaluator with conditioning, finite differences) + lib/vlib.py differ; model driver (compiled Lean)",
    "try-compile probes harness/densead_probe_satan2.cpp, densead_probe_createvarn.cpp (what does not instantiate must be exactly what the translator could not translate)",
    "modelled, not verified: IEEE rounding (theorems are over an arbitrary field / over the reals), libm, FastSmallVector storage, GPU decorators, scalar MathToolbox<double>::isSame/isnan/isfinite (hand-written at Float in the driver)",
]
FLAGS = ("-ffp-contract=off",)


def probe_satan2():
    """Does `atan2(scalar, Evaluation)` of Math.hpp instantiate?  (it did not before fix 277f9f0e5)"""
    src = os.path.join(vlib.VERIF, "harness", "densead_probe_satan2.cpp")
    cmd = ["g++", "-std=c++17", "-fsyntax-only", f"-D{vlib.GUARD}", "-I", vlib.REPO, "-I", vlib.OPM_BUILD,
           "-I", os.path.join(vlib.OPM_BUILD, "include"), src]
    rc, out, _ = vlib.run(cmd)
    return rc == 0, out[-1500:]


def probe_createvarn(size):
    """Does `createVariable(int nVars, value, varPos)` of a statically sized class instantiate?"""
    src = os.path.join(vlib.VERIF, "harness", "densead_probe_createvarn.cpp")
    cmd = ["g++", "-std=c++17", "-fsyntax-only", f"-D{vlib.GUARD}", f"-DPROBE_SIZE={size}", "-I", vlib.REPO, "-I", vlib.OPM_BUILD,
           "-I", os.path.join(vlib.OPM_BUILD, "include"), src]
    rc, out, _ = vlib.run(cmd)
    return rc == 0


# Property-mode statements that the tree violated before fixes 8f428cec0 / fb7b4d497 (design.d/C16.md
# "Findings"); armed = FAIL lines (disarmed they are only counted as probe.* in prop_stats):
ARM_GENERIC_ARITY = True          # Evaluation<T, n>::createConstant(n, c) of the primary template (guard was `nVars != 0`)
ARM_DYNAMIC_PREDICATES = True     # MathToolbox<DynamicEvaluation>::isnan/isfinite/isSame look at the derivatives


def run(ctx):
    ctx.assumptions += [
        "doubles cross the protocol as IEEE bit patterns; the comparison real code vs generated Lean definitions is bit-exact (tolerance 0 ulp), libm functions included (same libm in both processes)",
        "x86-64 without FMA contraction (-ffp-contract=off for the harness)",
        "inputs are finite and inside the functions' domains (generator keeps away from poles; property mode also from kinks and ties)",
    ]
    ctx.stage_translate(["densead"])
    if not ctx.stage_build_opm():
        return ctx.finish(trusted_base=TRUSTED)
    have_satan2, probe_out = probe_satan2()
    ctx.cov["probe_atan2_scalar_eval_compiles"] = have_satan2
    have_cvn_u, have_cvn_l = probe_createvarn(3), probe_createvarn(13)
    ctx.cov["probe_createVariable_nVars_compiles"] = {"specialisation": have_cvn_u, "primary_template": have_cvn_l}
    defs = (f"-DDENSEAD_HAVE_SATAN2={1 if have_satan2 else 0}", f"-DDENSEAD_HAVE_CREATEVARN_U={1 if have_cvn_u else 0}",
            f"-DDENSEAD_HAVE_CREATEVARN_L={1 if have_cvn_l else 0}", f"-DDENSEAD_ARM_GENERIC_ARITY={1 if ARM_GENERIC_ARITY else 0}",
            f"-DDENSEAD_ARM_DYNAMIC_PREDICATES={1 if ARM_DYNAMIC_PREDICATES else 0}")
    ok, exe, out = vlib.build_harness("densead", extra_flags=FLAGS + defs)
    if not ok:
        ctx.tie_broken("harness", "densead harness does not compile: " + out[-2000:])
        return ctx.finish(trusted_base=TRUSTED)
    if ctx.stage_lean():
        ctx.stage_audit()
        ctx.stage_correspondence(exe, ["corr", ctx.seed, ctx.tier])
    # property's own statement on the implementation: always run; it is also the search
    # for a concrete failing input when a proof or the correspondence broke.
    ctx.stage_property_mode(exe, ["prop", ctx.seed, ctx.tier])
    if ctx.tier == "thorough":
        # the header-only classes again under ASan/UBSan (indeterminate reads, out-of-bounds slots,
        # FastSmallVector misuse): same generators at the quick size
        ok, exe_san, out = vlib.build_harness("densead", sanitize=True,
                                              extra_flags=FLAGS + defs)
        if not ok:
            ctx.tie_broken("harness", "densead sanitizer harness does not compile: " + out[-2000:])
        else:
            if not ctx.broken:
                ctx.stage_correspondence(exe_san, ["corr", ctx.seed + 1000, "quick"], label="corr-san")
            ctx.stage_property_mode(exe_san, ["prop", ctx.seed + 1000, "quick"], label="prop-san")
    return ctx.finish(trusted_base=TRUSTED)


def replay(ctx, path):
    data = json.load(open(path))
    print(json.dumps(data, indent=1)[:4000])
    return run(ctx)
