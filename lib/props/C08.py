"""C08 — Unified restart files keep a consistent history under rewinds and crashes."""
import json
from .. import vlib

TRUSTED = [
    "Lean 4.33 kernel; axioms per theorem under coverage.axioms (subset of propext, Classical.choice, Quot.sound)",
    "translate/eclio.py, translate/eclfile.py (seekPosition header sizes -> Gen/EclFile.lean)",
    "harness/unrst.cpp + differ; the unformatted and formatted codec models of C07 (byte-exact correspondence there)",
    "modelled, not verified: std::filesystem::resize_file / stream buffering / OS crash atomicity (crash model = file cut at byte k); snprintf digits of formatted REAL/DOUB (formatted histories of INTE/LOGI/CHAR arrays are proved and compared; REAL/DOUB formatted rewinds by property mode on the real code)",
]


def run(ctx):
    ctx.assumptions += ["crash = the file is cut at an arbitrary byte offset", "report-step numbers < 2^31; arrays inside a step are not called SEQNUM"]
    ctx.stage_translate(["eclio", "eclfile"])
    if not ctx.stage_build_opm():
        return ctx.finish(trusted_base=TRUSTED)
    ok, exe, out = vlib.build_harness("unrst")
    if not ok:
        ctx.tie_broken("harness", "unrst harness does not compile: " + out[-2000:])
        return ctx.finish(trusted_base=TRUSTED)
    if ctx.stage_lean():
        ctx.stage_audit()
        ctx.stage_correspondence(exe, ["corr", ctx.seed, ctx.tier])
    ctx.stage_property_mode(exe, ["prop", ctx.seed, ctx.tier])
    return ctx.finish(trusted_base=TRUSTED)


def replay(ctx, path):
    print(json.dumps(json.load(open(path)), indent=1)[:4000])
    return run(ctx)
