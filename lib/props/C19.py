"""C19 — A Deck written as text parses back to the same Deck."""
from . import _decktext


def run(ctx):
    return _decktext.run(ctx, "prop19")


def replay(ctx, path):
    return _decktext.replay(ctx, path, "prop19")
