"""Shared orchestration of the deck text checks C01 (re-layout invariance) and C19 (print/parse
round trip): one model family (Lex, Tok, Scan, DeckWrite), one correspondence harness
(harness/deck.cpp), one property-mode harness (harness/deckprop.cpp)."""
import json, os
from .. import vlib

TRUSTED = [
    "Lean 4.33 kernel; axioms per theorem listed under coverage.axioms (subset of propext, Classical.choice, Quot.sound)",
    "translate/rawconsts.py (RawConsts.hpp sep_table/q_table -> Gen/RawConsts.lean), tied to the model's predicates by Proofs/RawConsts.lean",
    "hooks/decktext.patch (add-only OPM_COMMON_VERIF wrappers at the end of Parser.cpp exporting the anonymous-namespace lexer)",
    "harness/deck.cpp + harness/deckprop.cpp, the differ, the compiled model driver",
    "modelled, not verified: boost::spirit::qi number conversion (a parameter `Conv` of the model; the driver's stand-in recognisers are compared with qi on random tokens), ostream double formatting (parameter `fmt`), ParseContext policy dispatch, INCLUDE path lookup, keyword assembly over lines (RawKeyword size classes; exercised by property mode on the real parser only)",
]


def corr_with_canon(ctx, exe, label="corr", timeout=3000):
    """Like Ctx.stage_correspondence, with one extra step: double tokens in the model's answers
    (`t<hex>`) are converted to bit patterns by the real readValueToken<double> (harness `canon`)."""
    outdir = os.path.join(ctx.work, label)
    os.makedirs(outdir, exist_ok=True)
    rc, out, dt = vlib.run([exe, "corr", str(ctx.seed), ctx.tier, outdir], timeout=timeout)
    if rc != 0:
        ctx.tie_broken("harness", f"deck corr exited {rc}: {out[-2000:]}")
        ctx.violation(f"harness-crash.{label}", f"harness aborted (exit {rc}) — a signal in the real code is a result: {out[-800:]}",
                      {"cmd": [exe, "corr", str(ctx.seed), ctx.tier], "output": out[-4000:]})
        return False
    ops, impl, model_raw, model = (os.path.join(outdir, x) for x in ("ops.txt", "impl.txt", "model.raw.txt", "model.txt"))
    rc, err = vlib.run_driver(ops, model_raw)
    if rc != 0:
        ctx.tie_broken("driver", f"model driver exited {rc}: {err[-1000:]}")
        return False
    rc, out2, _ = vlib.run([exe, "canon", model_raw, model], timeout=600)
    if rc != 0:
        ctx.tie_broken("harness", f"deck canon exited {rc}: {out2[-1000:]}")
        return False
    n, dis, total = vlib.diff_lines(ops, impl, model)
    stats = {}
    try:
        stats = json.load(open(os.path.join(outdir, "stats.json")))
    except Exception:
        pass
    c = ctx.cov.setdefault("correspondence", {})
    c[label] = {"lines": n, "disagreements": total, "distribution": stats, "harness_s": round(dt, 1)}
    with open(ops) as f:
        for k, line in enumerate(f):
            if k in (0, n // 2, n - 1):
                ctx.samples.append({"op": vlib.shorten(line.strip(), 200)})
    if total:
        for d in dis[:5]:
            ctx.tie_broken("correspondence", f"line {d['line']}: op={vlib.shorten(d['op'])} impl={vlib.shorten(d['impl'])} model={vlib.shorten(d['model'])}")
        c[label]["first_disagreements"] = [{k: vlib.shorten(str(v), 400) for k, v in d.items()} for d in dis[:5]]
    return total == 0


def run(ctx, prop_mode):
    ctx.assumptions += [
        "default ParseContext (PARSE_EXTRA_DATA etc. throw); errors are compared by class only (returned / std::exception)",
        "C locale (std::toupper/std::isdigit act on ASCII only)",
        "libstdc++: std::find_if_not(first, last) with first == last + 1 returns last (splitSingleRecordString after an unterminated quote)",
    ]
    ctx.stage_translate(["rawconsts"])
    if not ctx.stage_build_opm():
        return ctx.finish(trusted_base=TRUSTED)
    ok, exe, out = vlib.build_harness("deck")
    if not ok:
        ctx.tie_broken("harness", "deck harness does not compile (is hooks/decktext.patch applied to the repo?): " + out[-2000:])
    okp, exep, outp = vlib.build_harness("deckprop")
    if not okp:
        ctx.tie_broken("harness", "deckprop harness does not compile: " + outp[-2000:])
    if ok and ctx.stage_lean():
        ctx.stage_audit()
        corr_with_canon(ctx, exe)
    # the property's own statement on the implementation: always run; also the search for a
    # concrete failing input when a proof or the correspondence broke.
    if okp:
        ctx.stage_property_mode(exep, [prop_mode, ctx.seed, ctx.tier])
    return ctx.finish(trusted_base=TRUSTED)


def replay(ctx, path, prop_mode):
    data = json.load(open(path))
    print(json.dumps(data, indent=1)[:6000])
    return run(ctx, prop_mode)
