"""Shared orchestration of the deck text checks C01 (re-layout invariance) and C19 (print/parse
round trip): one model family (Lex, Tok, Scan, DeckWrite), one correspondence harness
(harness/deck.cpp), one property-mode harness (harness/deckprop.cpp)."""
import json, os
from .. import vlib

TRUSTED = [
    "Lean 4.33 kernel; axioms per theorem listed under coverage.axioms (subset of propext, Classical.choice, Quot.sound)",
    "translate/rawconsts.py (RawConsts.hpp sep_table/q_table -> Gen/RawConsts.lean), tied to the model's predicates by Proofs/RawConsts.lean",
    "hooks/decktext.patch (add-only OPM_COMMON_VERIF wrappers at the end of Parser.cpp exporting the anonymous-namespace lexer)",
    "harness/deck.cpp + harness/deckprop.cpp, the differ, the compiled model driver",
    "modelled, not verified: boost::spirit::qi number conversion (a parameter `Conv` of the model; the driver's stand-in recognisers are compared with qi on random tokens), ostream double formatting (parameter `fmt`), ParseContext policy dispatch, INCLUDE path lookup (std::filesystem::canonical: every spelling of a path names one file - a parameter of the input stack model IncStack, exercised by property mode with five spellings and PATHS aliases), keyword assembly over lines (RawKeyword size classes; exercised by property mode on the real parser only)",
]


def corr_with_canon(ctx, exe, label="corr", timeout=3000, mode="corr", env=None):
    """Like Ctx.stage_correspondence, with one extra step: double tokens in the model's answers
    (`t<hex>`) are converted to bit patterns by the real readValueToken<double> (harness `canon`)."""
    outdir = os.path.join(ctx.work, label)
    os.makedirs(outdir, exist_ok=True)
    rc, out, dt = vlib.run([exe, mode, str(ctx.seed), ctx.tier, outdir], timeout=timeout, env=env)
    if rc != 0:
        ctx.tie_broken("harness", f"deck {mode} exited {rc}: {out[-2000:]}")
        ctx.violation(f"harness-crash.{label}", f"harness aborted (exit {rc}) — a signal in the real code is a result: {out[-800:]}",
                      {"cmd": [exe, mode, str(ctx.seed), ctx.tier], "output": out[-4000:]})
        return False
    ops, impl, model_raw, model = (os.path.join(outdir, x) for x in ("ops.txt", "impl.txt", "model.raw.txt", "model.txt"))
    rc, err = vlib.run_driver(ops, model_raw)
    if rc != 0:
        ctx.tie_broken("driver", f"model driver exited {rc}: {err[-1000:]}")
        return False
    rc, out2, _ = vlib.run([exe, "canon", model_raw, model], timeout=600)
    if rc != 0:
        ctx.tie_broken("harness", f"deck canon exited {rc}: {out2[-1000:]}")
        return False
    n, dis, total = vlib.diff_lines(ops, impl, model)
    stats = {}
    try:
        stats = json.load(open(os.path.join(outdir, "stats.json")))
    except Exception:
        pass
    c = ctx.cov.setdefault("correspondence", {})
    c[label] = {"lines": n, "disagreements": total, "distribution": stats, "harness_s": round(dt, 1)}
    with open(ops) as f:
        for k, line in enumerate(f):
            if k in (0, n // 2, n - 1):
                ctx.samples.append({"op": vlib.shorten(line.strip(), 200)})
    if total:
        for d in dis[:5]:
            ctx.tie_broken("correspondence", f"line {d['line']}: op={vlib.shorten(d['op'])} impl={vlib.shorten(d['impl'])} model={vlib.shorten(d['model'])}")
        c[label]["first_disagreements"] = [{k: vlib.shorten(str(v), 400) for k, v in d.items()} for d in dis[:5]]
    return total == 0


# Property-mode keys name stage/source/keyword class; a defect of the code shows up under many of
# them.  For the verdict (and for known_findings.txt) they are folded into one key per cause.
FAMILIES = [
    (r"\.alldefault_record$", "C19.alldefault_record"),
    (r"\.string_with_apostrophe$", "C19.string_with_apostrophe"),
    (r"^C19\.roundtrip_after_si\.\w+\.ANY\.si_range$", "C19.si_range_after_si"),
    (r"\.all_item_single_trailing_default$", "C19.all_item_single_trailing_default"),
    (r"\.all_item_trailing_default$", "C19.all_item_trailing_default"),
    (r"\.after_pending_default$", "C19.title_after_pending_default"),
    (r"^C19\.reparse\.\w+\.CODE\.err", "C19.code_keyword_end_token"),
    (r"\.double_overflow$", "C19.double_overflow"),
    (r"^C01\.relayout\.\w+\.star_contract_qblank\.", "C01.star_quoted_blank"),
    (r"^C01\.relayout\.\w+\.\w+\.differs\.CODE$", "C01.code_block_followed_by_code_keyword"),
]


def fold_keys(ctx):
    import re
    for v in ctx.violations:
        for pat, fam in FAMILIES:
            if re.search(pat, v["key"]):
                v["detail"] = f"[{v['key']}] " + v["detail"]
                if isinstance(v.get("payload"), dict):
                    v["payload"]["harness_key"] = v["key"]
                v["key"] = fam
                break
    # one violation per key (the first instance carries the replay detail)
    seen, kept = {}, []
    for v in ctx.violations:
        if v["key"] in seen:
            seen[v["key"]]["more"] = seen[v["key"]].get("more", 0) + 1
        else:
            seen[v["key"]] = v
            kept.append(v)
    for v in kept:
        if v.get("more"):
            v["detail"] += f"  (+{v.pop('more')} more instances of this key in this run)"
    ctx.violations[:] = kept


def run(ctx, prop_mode):
    ctx.assumptions += [
        "default ParseContext (PARSE_EXTRA_DATA etc. throw); errors are compared by class only (returned / std::exception)",
        "C locale (std::toupper/std::isdigit act on ASCII only)",
        "libstdc++: std::find_if_not(first, last) with first == last + 1 returns last (splitSingleRecordString after an unterminated quote)",
    ]
    ctx.stage_translate(["rawconsts"])
    if not ctx.stage_build_opm():
        return ctx.finish(trusted_base=TRUSTED)
    ok, exe, out = vlib.build_harness("deck")
    if not ok:
        ctx.tie_broken("harness", "deck harness does not compile (is hooks/decktext.patch applied to the repo?): " + out[-2000:])
    okp, exep, outp = vlib.build_harness("deckprop")
    if not okp:
        ctx.tie_broken("harness", "deckprop harness does not compile: " + outp[-2000:])
    if ok and ctx.stage_lean():
        ctx.stage_audit()
        corr_with_canon(ctx, exe)
    # the property's own statement on the implementation: always run; also the search for a
    # concrete failing input when a proof or the correspondence broke.
    if okp:
        ctx.stage_property_mode(exep, [prop_mode, ctx.seed, ctx.tier])
        fold_keys(ctx)
    return ctx.finish(trusted_base=TRUSTED)


def replay(ctx, path, prop_mode):
    data = json.load(open(path))
    print(json.dumps(data, indent=1)[:6000])
    return run(ctx, prop_mode)
