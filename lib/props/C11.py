"""C11 — Serialization round trip yields an observably identical object."""
import hashlib, json, os
from .. import vlib

TRUSTED = [
    "Lean 4.33 kernel; axioms per theorem listed under coverage.axioms (subset of propext, Classical.choice, Quot.sound)",
    "translate/serialops.py (clang++-14 record layouts + token-level scan of serializeOp / operator== bodies -> Gen/SerialClasses.lean)",
    "harness/serial.cpp, serial_codec.hpp, serial_objects.hpp, serial_probes.hpp, serial_flags.hpp + lib/vlib.py differ; model driver (compiled Lean)",
    "harness/serial_bitsets.cpp compiles opm/common/utility/MemPacker.cpp of the working tree a second time to instantiate the bitset packer for "
    "widths the library lacks (1, 8, 16, 32, 33, 64); it replaces the archive member MemPacker.o in the harness binary (same source file)",
    "modelled, not verified: the C++ has no bounds checks on UNPACK (short buffer / bool byte other than 0,1 is UB there, an error in the model); "
    "memcpy packing of padded PODs; HAVE_DUNE branches; "
    "pointer layer: the addresses make_shared returns are a parameter (assumed injective = distinct live objects), a buffer whose pointee "
    "contains its own address (PACK cannot produce it), variant/set of pointer-holding types and two static types at one address are outside the model; "
    "that the translator's pointer-shape code of a member type (ptr_shape) is right (pointer_members_modelled is a kernel check over it); "
    "recursive classes (UDQASTNode) are instances of the descriptor type only by unrolling; "
    "that operator== and the public queries depend only on the listed members",
    "the probes for slave_mode / m_restart_network_pressures are armed exactly when the member is not on knownUnserialized (empty now)",
]


def _hdr_hash():
    """The harness instantiates header-only code of the repo (Serializer.hpp, MemPacker.hpp, every
    serializeOp): its cache key must cover the repo headers, not only the library archive."""
    from translate import serialops
    h = hashlib.sha256()
    for fn in ("serial_codec.hpp", "serial_objects.hpp", "serial_probes.hpp", "serial_flags.hpp"):
        h.update(open(os.path.join(vlib.VERIF, "harness", fn), "rb").read())
    for p in serialops._sources(vlib.REPO):
        if p.endswith(".hpp"):
            h.update(p.encode())
            h.update(open(p, "rb").read())
    return h.hexdigest()[:16]


def _probe_env():
    """The two reproduced members on `knownUnserialized` (Props/C11.lean) have probes in property mode.  While an
    entry is on that list the loss is the documented state of the unchanged tree and the probe only counts it;
    once the member is serialized `exceptions_tight` forces the entry off the list and the probe is armed."""
    txt = open(os.path.join(vlib.LEAN, "OpmVerif", "Props", "C11.lean")).read()
    env = dict(os.environ)
    env["C11_ARM_SLAVE_MODE"] = "0" if '("Opm::ScheduleStatic", "slave_mode"' in txt else "1"
    env["C11_ARM_NETPRESS"] = "0" if '("Opm::EclipseState", "m_restart_network_pressures"' in txt else "1"
    return env


def run(ctx):
    ctx.assumptions += [
        "sizeof(size_t)=8, sizeof(int)=4, sizeof(bool)=1, little-endian host (first correspondence line checks the sizes)",
        "entries of unordered containers are compared as sets (iteration order is unspecified)",
        "combinator algebra proved for all descriptors/values; per-class completeness is a finite kernel check over the "
        "regenerated table; observational identity of real objects is property mode (proof (partial) by design)",
    ]
    ctx.stage_translate(["serialops"])
    if not ctx.stage_build_opm():
        return ctx.finish(trusted_base=TRUSTED)
    # second TU: MemPacker.cpp of the working tree + bitset instantiations for widths the library lacks
    ok, exe, out = vlib.build_harness("serial", extra_src=(os.path.join(vlib.VERIF, "harness", "serial_bitsets.cpp"),),
                                      extra_flags=(f"-DSERIAL_HDR_HASH={_hdr_hash()}",))
    if not ok:
        ctx.tie_broken("harness", "serial harness does not compile: " + out[-2000:])
        return ctx.finish(trusted_base=TRUSTED)
    if ctx.stage_lean():
        ctx.stage_audit()
        ctx.stage_correspondence(exe, ["corr", ctx.seed, ctx.tier])
    # the property's own statement on the implementation: always run; it is also the search
    # for a concrete failing input when a proof, the table check or the correspondence broke
    ctx.stage_property_mode(exe, ["prop", ctx.seed, ctx.tier], env=_probe_env())
    return ctx.finish(trusted_base=TRUSTED)


def replay(ctx, path):
    data = json.load(open(path))
    print(json.dumps(data, indent=1)[:4000])
    return run(ctx)
