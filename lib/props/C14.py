"""C14 — Black-oil PVT functions honour the input tables and are self-consistent."""
import json
from .. import vlib

TRUSTED = [
    "Lean 4.33 kernel; axioms per theorem under coverage.axioms (subset of propext, Classical.choice, Quot.sound)",
    "translate/tab2d.py (appendSamplePoint guide rule + eval/findPoints/x-/ySegmentIndex expression shapes -> Gen/Tab2D.lean), translate/pvt.py (updateSaturationPressure_ sampling shape, Newton loop constants -> Gen/Pvt.lean); both cross-checked by the bit-exact correspondence of the dumped internal tables",
    "translate/pvtregion.py (shape of PvtxTable::init / recordRanges / numTables, TableManager::initFullTables / initSimpleTableContainer; keyword routing -> Gen/PvtRegion.lean); cross-checked by the pvt.regions / pvt.simple correspondence on keywords with up to 6 regions and by property mode on whole decks",
    "harness/pvt.cpp + lib/vlib.py differ; model driver (compiled Lean, Float = IEEE double, operation order of the C++ mirrored)",
    "Float ~ R: theorems are over a linearly ordered field (HasDerivAt / continuity over the reals, Mathlib.Analysis.Calculus.Deriv.{Add,Mul}); the IEEE execution of the same definitions is compared bit for bit with the C++",
    "master-table extension (extendRows/findMaster/extendAll) and fillTable: proved about the model; model = code by the bit-exact pvt.dump correspondence of every internal table and by the extend.* property laws computed from the deck numbers alone",
    "modelled, tied by correspondence only (not proved): fillBMu / invSatBMu layout (undersat_meets_sat for mu), RightExtreme (PVTG) analogue of undersat_meets_sat",
    "modelled, not verified: Parser/unit conversion (decided by property mode against independently written conversion factors), thermal/CO2/H2/brine PVT, PVTGW/PVTGWO, VAPPARS modifiers, setSaturated* convenience initialisers, isfinite test (applied in the front end)",
]


def run(ctx):
    ctx.assumptions += [
        "tables are physically ordered: pressures / Rs / pg strictly increasing, saturated Rs(p), Rv(p) strictly increasing, B and mu positive",
        "PVTO/PVTG: the last record carries undersaturated rows (otherwise initFromState throws)",
        "region 1's tables are given explicitly (a defaulted region 1 is refused by the code: theorem region_first_must_be_given, correspondence err:first)",
    ]
    ctx.stage_translate(["tab2d", "pvt", "pvtregion"])
    if not ctx.stage_build_opm():
        return ctx.finish(trusted_base=TRUSTED)
    ok, exe, out = vlib.build_harness("pvt")
    if not ok:
        ctx.tie_broken("harness", "pvt harness does not compile: " + out[-2000:])
        return ctx.finish(trusted_base=TRUSTED)
    if ctx.stage_lean():
        ctx.stage_audit()
        ctx.stage_correspondence(exe, ["corr", ctx.seed, ctx.tier])
    ctx.stage_property_mode(exe, ["prop", ctx.seed, ctx.tier])
    return ctx.finish(trusted_base=TRUSTED)


def replay(ctx, path):
    print(json.dumps(json.load(open(path)), indent=1)[:4000])
    return run(ctx)
