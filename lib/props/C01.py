"""C01 — Deck content is invariant under lexical re-layout of the input."""
from . import _decktext


def run(ctx):
    return _decktext.run(ctx, "prop01")


def replay(ctx, path):
    return _decktext.replay(ctx, path, "prop01")
