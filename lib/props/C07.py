"""C07 — Eclipse array files round-trip and conform to the published on-disk layout."""
import json, os
from .. import vlib

TRUSTED = [
    "Lean 4.33 kernel; axioms per theorem listed under coverage.axioms (subset of propext, Classical.choice, Quot.sound)",
    "translate/eclio.py (EclIOdata.hpp constants -> Gen/EclIO.lean), cross-checked by the byte-exact correspondence",
    "harness/eclio.cpp + lib/vlib.py differ; model driver (compiled Lean)",
    "modelled, not verified: snprintf digit generation of formatted REAL/DOUB fields (inputs of the formatted model); strtod and (float) are modelled in Model/Strtod.lean and compared bit for bit with the real reader; the rounding core is proved correct (nearest, ties to even, normalised: strtod_model_rounds_correctly) — assumed of libc: glibc strtod is correctly rounded; the bit encoding, the ERANGE rule and the double->float step are compared only; inf/nan/hex tokens outside that model; iostream buffering; X231 headers (>= 2^31 elements)",
]


def run(ctx):
    ctx.assumptions += [
        "elements cross the protocol as their big-endian on-disk image; host is little-endian",
        "a short read is an error (true of the code since the stream tests of fix f994f9875)",
    ]
    ctx.stage_translate(["eclio"])
    if not ctx.stage_build_opm():
        return ctx.finish(trusted_base=TRUSTED)
    ok, exe, out = vlib.build_harness("eclio")
    if not ok:
        ctx.tie_broken("harness", "eclio harness does not compile: " + out[-2000:])
        return ctx.finish(trusted_base=TRUSTED)
    if ctx.stage_lean():
        ctx.stage_audit()
        ctx.stage_correspondence(exe, ["corr", ctx.seed, ctx.tier])
    # property's own statement on the implementation: always run; it is also the search
    # for a concrete failing input when a proof or the correspondence broke.
    ctx.stage_property_mode(exe, ["prop", ctx.seed, ctx.tier])
    return ctx.finish(trusted_base=TRUSTED)


def replay(ctx, path):
    data = json.load(open(path))
    print(json.dumps(data, indent=1)[:4000])
    return run(ctx)
