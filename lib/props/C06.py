"""C06 — Well connection factors obey the Peaceman relation for every COMPDAT input."""
import json
from .. import vlib

TRUSTED = [
    "Lean 4.33 kernel + Mathlib (Real.log/exp/sqrt/rpow); axioms per theorem under coverage.axioms (subset of propext, Classical.choice, Quot.sound)",
    "harness/compdat.cpp (deck generator, reading of Schedule::getWell(..).getConnections()), lib/vlib.py differ, compiled Lean model driver",
    "Float ~ R: theorems are over the reals; the same definitions executed at IEEE double (libm sqrt/log/exp/pow on both sides) are compared with the real code to <= 4 ulp (0 ulp observed)",
    "modelled, not verified: deck text -> DeckItem (parser, defaults), unit conversion beyond the four COMPDAT dimensions checked by peaceman.unit, EclipseGrid cell geometry and FieldProps lookup (their outputs are inputs of the model), std::sort for DEPTH ordering above 16 connections, multi-segment wells (COMPSEGS)",
]


def run(ctx):
    ctx.assumptions += [
        "cell dimensions, depth, PERMX/Y/Z, NTG are read from EclipseGrid/FieldPropsManager by the harness and handed to the model; COMPDAT item values are handed over as DeckItem::getSIDouble returns them",
        "identity theorems carry the hypothesis rw < r0 (the code clamps min(rw, r0)); property mode counts r0 <= rw cases separately",
        "a COMPDAT record that gives CF, Kh and r0 explicitly is stored as given: the identity then holds iff the input satisfies it",
    ]
    if not ctx.stage_build_opm():
        return ctx.finish(trusted_base=TRUSTED)
    ok, exe, out = vlib.build_harness("compdat")
    if not ok:
        ctx.tie_broken("harness", "compdat harness does not compile: " + out[-2000:])
        return ctx.finish(trusted_base=TRUSTED)
    if ctx.stage_lean():
        ctx.stage_audit()
        ctx.stage_correspondence(exe, ["corr", ctx.seed, ctx.tier])
    # the property's own statement on the implementation (identity, text-book defaults,
    # idempotence, frame properties, records over several layers against the text-book values
    # of each layer's own cell); also the search for a concrete failing input
    ctx.stage_property_mode(exe, ["prop", ctx.seed, ctx.tier])
    return ctx.finish(trusted_base=TRUSTED)


def replay(ctx, path):
    data = json.load(open(path))
    print(json.dumps(data, indent=1)[:4000])
    if isinstance(data.get("seed"), int):
        ctx.seed = data["seed"]
    if data.get("tier") in ("quick", "thorough"):
        ctx.tier = data["tier"]
    return run(ctx)
