"""C02 — Unit conversion is invertible, composable, physical and deck-unit independent."""
import json, os
from .. import vlib

TRUSTED = [
    "Lean 4.33 kernel; axioms per theorem listed under coverage.axioms (subset of propext, Classical.choice, Quot.sound)",
    "translate/units.py (Units.hpp, UnitSystem.{hpp,cpp}, keyword JSON, shape of DeckItem.cpp -> Gen/Units.lean; "
    "FieldProps.hpp unit strings, UnitSystem::uda_dim, Summary.cpp mul_unit/div_unit, item->string index table -> Gen/UnitsUse.lean); "
    "cross-checked on every run by the bit-exact correspondence (every constant, table entry, named dimension and "
    "keyword dimension string is also asked from the real code)",
    "Proofs/UnitsSpec.lean: the hand-written SI definitions and measure compositions the tables are proved equal to; "
    "Proofs/UnitsUseSpec.lean: the specification's reading of a composite string, UDA control -> deck item, and the "
    "exception lists in the theorem statements (udaOpen = [WCONINJE_RESV, WCONPROD_RESV, GCONINJE_RESV_MAX_RATE, WCONPROD_LIFT], the open findings; inputLacks = [Ymodule]; "
    "fieldPropsOpen / fieldPropsMismatchOpen are empty since fix 0d2fae2e6)",
    "harness/units_quantities.cpp (round 5): the HAND-WRITTEN keyword item -> physical quantity table (126 items / 151 columns, "
    "from the reference manual's item descriptions, not from the keyword JSON), the quantities' SI factors as decimal numbers, and "
    "the positional keyword templates; Proofs/UnitsQuantSpec.lean: each quantity as a product/quotient of the named dimensions of "
    "Proofs/UnitsSpec.lean.  These ARE the statement of item_quantities_match; the two writings of the factors (C++ numbers, Lean "
    "composition) are compared by the correspondence (units.quant_q), positional templates vs named table by property mode",
    "modelled, not verified: Summary.cpp mul_unit/div_unit (anonymous namespace) are tied by the translator only",
    "harness/units.cpp + lib/vlib.py differ; model driver (compiled Lean)",
    "modelled, not verified: IEEE rounding (theorems are exact over Rat / any field of characteristic 0; the Float run "
    "of the same expressions is compared bit for bit, and the real doubles are checked against the exact rationals "
    "within the rounding bound k*u*mag derived from each expression); keyword -> dimension annotations are taken "
    "from the JSON (set and per-item equality with the compiled parser are checked by the correspondence); that an annotation is "
    "the RIGHT physical unit is proved for the 126 items of the hand-written table only (item_quantities_match) — the other "
    "~1000 dimensioned items of the keyword JSON have no independent statement of what they should be",
]


def run(ctx):
    ctx.assumptions += [
        "doubles cross the protocol as IEEE bit patterns; the build has no FMA contraction (x86-64 baseline)",
        "\"X/\" and \"/\": UnitSystem::parse refuses them (std::invalid_argument, fix ee5075475, kept in dc1eee513); the harness probes this in a "
        "forked child first and sends such strings only if the tree under test refuses them (a tree without the guard "
        "indexes parts[1] of a one-element vector: property key parse.trailing_slash fails, theorem parse_never_ub_iff)",
    ]
    ctx.stage_translate(["units"])
    if not ctx.stage_build_opm():
        return ctx.finish(trusted_base=TRUSTED)
    ok, exe, out = vlib.build_harness("units", extra_src=[os.path.join(vlib.VERIF, "harness", "units_quantities.cpp")])
    if not ok:
        ctx.tie_broken("harness", "units harness does not compile: " + out[-2000:])
        return ctx.finish(trusted_base=TRUSTED)
    if ctx.stage_lean():
        ctx.stage_audit()
        ctx.stage_correspondence(exe, ["corr", ctx.seed, ctx.tier])
    # the property's own statement on the implementation (round trips, composition, physical
    # values, DeckItem accessor histories, one model in four unit systems): always run; it is
    # also the search for a concrete failing input when a proof or the correspondence broke.
    ctx.stage_property_mode(exe, ["prop", ctx.seed, ctx.tier])
    return ctx.finish(trusted_base=TRUSTED)


def replay(ctx, path):
    data = json.load(open(path))
    print(json.dumps(data, indent=1)[:4000])
    return run(ctx)
