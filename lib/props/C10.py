"""C10 — Every summary value written can be read back at its vector and ministep."""
import json
from .. import vlib

TRUSTED = [
    "Lean 4.33 kernel; axioms per theorem under coverage.axioms (subset of propext, Classical.choice, Quot.sound)",
    "translate/eclio.py (block/column constants from EclIOdata.hpp), translate/esmryseek.py (the seek expressions of ESmry::loadData(vectList) and the report-step counter of the restart-chain scan in the ESmry constructor), translate/extesmry.py (the vector position arithmetic of ExtESmry::load_esmry and the array order of ExtSmryOutput::write)",
    "harness/smry.cpp + differ; the unformatted codec model of C07",
    "modelled, not verified: the ESMRY container layout, SMSPEC bookkeeping (KEYWORDS/WGNAMES/NUMS/UNITS/RESTART), strtof — these are decided by the property-mode read-back on the real ESmry/ExtESmry",
]


def run(ctx):
    ctx.assumptions += ["every formatted REAL field is exactly columnWidthReal characters (setw pads; the four string makers return <= 15 characters)"]
    ctx.stage_translate(["eclio", "esmryseek", "extesmry"])
    if not ctx.stage_build_opm():
        return ctx.finish(trusted_base=TRUSTED)
    ok, exe, out = vlib.build_harness("smry")
    if not ok:
        ctx.tie_broken("harness", "smry harness does not compile: " + out[-2000:])
        return ctx.finish(trusted_base=TRUSTED)
    if ctx.stage_lean():
        ctx.stage_audit()
        ctx.stage_correspondence(exe, ["corr", ctx.seed, ctx.tier])
    ctx.stage_property_mode(exe, ["prop", ctx.seed, ctx.tier])
    return ctx.finish(trusted_base=TRUSTED)


def replay(ctx, path):
    print(json.dumps(json.load(open(path)), indent=1)[:4000])
    return run(ctx)
