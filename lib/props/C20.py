"""C20 — Parsing and state construction never crash: a result or an exception."""
import json, os
from .. import vlib

TRUSTED = [
    "Lean 4.33 kernel; axioms per theorem under coverage.axioms (subset of propext, Classical.choice, Quot.sound)",
    "translate/eclio.py; the unformatted codec model of C07 (byte-exact correspondence there, verdict correspondence on mutated files here)",
    "harness/fuzz.cpp built against a second library build with UBSan (-fno-sanitize-recover=all) and -D_GLIBCXX_ASSERTIONS "
    "(bounds-checked operator[] of vector/string/array); RLIMIT_AS 4 GiB; per-input alarm",
    "NOT proved: everything past the modelled cores (keyword handlers, EclipseState/Schedule/SummaryConfig construction, the formatted reader, "
    "boost number parsers) is only exercised by the hardened fuzz run; heap errors that neither UBSan nor the libstdc++ assertions see "
    "(raw pointer arithmetic) would need ASan, which cannot be combined with the address-space limit",
    "scoping: the documented EXIT1 policy (process exit on a missing INCLUDE file) is turned into THROW_EXCEPTION by the harness",
]


def run(ctx):
    ctx.assumptions += ["byte strings reachable by structure-aware mutation of shipped decks and generated result files (quantifier of the property)"]
    ctx.stage_translate(["eclio"])
    ok_main = ctx.stage_build_opm()
    ok, out = vlib.build_opm(hard=True)
    if not ok:
        ctx.tie_broken("build", "hardened build of the real code failed:\n" + out[-3000:])
    if not (ok_main and ok):
        return ctx.finish(trusted_base=TRUSTED)
    ok, exe, out = vlib.build_harness("fuzz", hard=True)
    if not ok:
        ctx.tie_broken("harness", "fuzz harness does not compile: " + out[-2000:])
        return ctx.finish(trusted_base=TRUSTED)
    env = {"VERIF_REPO": vlib.REPO, "UBSAN_OPTIONS": "print_stacktrace=1:halt_on_error=1"}
    if ctx.stage_lean():
        ctx.stage_audit()
        ctx.stage_correspondence(exe, ["corr", ctx.seed, ctx.tier])
    ctx.stage_property_mode(exe, ["prop", ctx.seed, ctx.tier], env=env, timeout=6000)
    return ctx.finish(trusted_base=TRUSTED)


def replay(ctx, path):
    data = json.load(open(path))
    print(json.dumps(data, indent=1)[:3000])
    ok, exe, out = vlib.build_harness("fuzz", hard=True)
    for f in (data.get("payload") or {}).get("killing_input", []):
        kind = "decks" if f.endswith(".DATA") else "files"
        rc, out, dt = vlib.run([exe, "prop", "0", "quick", os.path.join(ctx.work, "replay"), "--replay", f, kind], env={"VERIF_REPO": vlib.REPO})
        print(f"replay of {f}: exit {rc}\n{out[-1500:]}")
        if rc != 0:
            ctx.violation("replay-crash", f"replayed input {f} still kills the real code (exit {rc})", {"killing_input": [f]})
    return ctx.finish(trusted_base=TRUSTED)
