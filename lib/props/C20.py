"""C20 — Parsing and state construction never crash: a result or an exception."""
import json, os
from .. import vlib
from . import _decktext

TRUSTED = [
    "Lean 4.33 kernel; axioms per theorem under coverage.axioms (subset of propext, Classical.choice, Quot.sound)",
    "translate/eclio.py; the unformatted codec model of C07 (byte-exact correspondence there, verdict correspondence on mutated files here)",
    "harness/fuzz.cpp built against a second library build with UBSan (-fno-sanitize-recover=all) and -D_GLIBCXX_ASSERTIONS "
    "(bounds-checked operator[] of vector/string/array); RLIMIT_AS 4 GiB; per-input alarm; the deck part once more against a third "
    "library build with AddressSanitizer (no address-space limit there, so the result-file part is not repeated under ASan)",
    "NOT proved: everything past the modelled cores (keyword handlers, EclipseState/Schedule/SummaryConfig construction, the formatted reader, "
    "boost number parsers) is only exercised by the hardened fuzz run; for result FILES heap errors that neither UBSan nor the libstdc++ assertions see "
    "(raw pointer arithmetic) would need ASan, which cannot be combined with the address-space limit; for DECKS ASan is used",
    "summary files: translate/esmryscan.py (reads the guards in front of arraySourceList[0], arraySourceList[i+1], timeStepList[0] and the "
    "num > rest test off ESmry.cpp and refuses a changed loop skeleton); Model/ESmryScan.lean is a hand-written pointer-level mirror of the two "
    "loops, tied by the esmryscan.* lines of the correspondence (real ESmry on generated array lists / PARAMS length words); NOT modelled: "
    "getListOfArrays (header walk with fseek), the seek arithmetic (C10), stream reads that fail at end of file (the length word is then "
    "unspecified; neither UBSan nor the libstdc++ assertions see an uninitialised read)",
    "scoping: the documented EXIT1 policy (process exit on a missing INCLUDE file) is turned into THROW_EXCEPTION by the harness",
    "deck-text lexer part: translate/rawconsts.py (separator/quote tables, code keywords), hooks/decktext.patch (add-only wrappers exporting the "
    "anonymous-namespace lexer of Parser.cpp), harness/deck.cpp `corrlex` built against the UBSan/bounds-checked library, the differ; "
    "Model/LexPtr.lean (pointer-level mirror: which iterator steps and dereferences the C++ performs) is read off the source - the tokeniser "
    "mirror is additionally compared with the real RawRecord on every generated record; modelled, not verified: boost::spirit::qi number "
    "conversion (parameter of the model), std::find/std::find_if_not on valid ranges, std::string::data()[size()] == NUL",
]


def run(ctx):
    ctx.assumptions += ["byte strings reachable by structure-aware mutation of shipped decks and generated result files (quantifier of the property)"]
    ctx.assumptions += ["deck-text lexer theorems: C locale (std::toupper/std::isdigit/std::isalnum act on ASCII only; glibc accepts negative "
                        "char values - no sanitizer or valgrind report, see design.d/C20.md)"]
    ctx.stage_translate(["eclio", "rawconsts", "esmryscan"])
    ok_main = ctx.stage_build_opm()
    ok, out = vlib.build_opm(hard=True)
    if not ok:
        ctx.tie_broken("build", "hardened build of the real code failed:\n" + out[-3000:])
    if not (ok_main and ok):
        return ctx.finish(trusted_base=TRUSTED)
    ok, exe, out = vlib.build_harness("fuzz", hard=True)
    if not ok:
        ctx.tie_broken("harness", "fuzz harness does not compile: " + out[-2000:])
        return ctx.finish(trusted_base=TRUSTED)
    env = {"VERIF_REPO": vlib.REPO, "UBSAN_OPTIONS": "print_stacktrace=1:halt_on_error=1"}
    # second correspondence stage: the lexer model the `lexer_*` theorems of Props/C20.lean are about
    # (Model/Lex, Tok, RawKw, LexPtr) against the real lexical layer - function by function on
    # arbitrary bytes plus keyword assembly - with the real code running under UBSan and
    # bounds-checked libstdc++ containers (a report aborts the harness = crash violation).
    okd, exed, outd = vlib.build_harness("deck", hard=True)
    if not okd:
        ctx.tie_broken("harness", "deck harness does not compile against the hardened build (is hooks/decktext.patch applied to the repo?): " + outd[-2000:])
    if ctx.stage_lean():
        ctx.stage_audit()
        ctx.stage_correspondence(exe, ["corr", ctx.seed, ctx.tier])
        if okd:
            _decktext.corr_with_canon(ctx, exed, label="corr-lexer", mode="corrlex", env=env)
    ctx.stage_property_mode(exe, ["prop", ctx.seed, ctx.tier], env=env, timeout=6000)
    # third library build with AddressSanitizer: the deck part (fixed probes incl. nested INCLUDE
    # chains of tiny files, shipped decks, mutated decks) once more, heap errors abort the harness
    oka, outa = vlib.build_opm(asan=True)
    if not oka:
        ctx.tie_broken("build", "AddressSanitizer build of the real code failed:\n" + outa[-3000:])
    else:
        okf, exea, outf = vlib.build_harness("fuzz", asan=True)
        if not okf:
            ctx.tie_broken("harness", "fuzz harness does not compile against the AddressSanitizer build: " + outf[-2000:])
        else:
            ctx.stage_property_mode(exea, ["prop", ctx.seed, ctx.tier], label="prop-asan",
                                    env={"VERIF_REPO": vlib.REPO,
                                         "ASAN_OPTIONS": "detect_leaks=0:abort_on_error=1:allocator_may_return_null=1"},
                                    timeout=6000)
    # deck-text probes that need a time bound of their own (each call in a child under alarm):
    # section-selective parseFile, INCLUDE cycles - see design.d/C20.lexer.md, second round
    okp, exep, outp = vlib.build_harness("deck")
    if okp:
        ctx.stage_property_mode(exep, ["probe20", ctx.seed, ctx.tier], label="prop-decktext", timeout=1200)
    else:
        ctx.tie_broken("harness", "deck harness does not compile: " + outp[-2000:])
    return ctx.finish(trusted_base=TRUSTED)


def replay(ctx, path):
    data = json.load(open(path))
    print(json.dumps(data, indent=1)[:3000])
    ok, exe, out = vlib.build_harness("fuzz", hard=True)
    for f in (data.get("payload") or {}).get("killing_input", []):
        kind = "decks" if f.endswith(".DATA") else "files"
        rc, out, dt = vlib.run([exe, "prop", "0", "quick", os.path.join(ctx.work, "replay"), "--replay", f, kind], env={"VERIF_REPO": vlib.REPO})
        print(f"replay of {f}: exit {rc}\n{out[-1500:]}")
        if rc != 0:
            ctx.violation("replay-crash", f"replayed input {f} still kills the real code (exit {rc})", {"killing_input": [f]})
    return ctx.finish(trusted_base=TRUSTED)
