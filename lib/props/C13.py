"""C13 — Grid indexing and geometry are coherent across input forms and EGRID files."""
import json, os
from .. import vlib

TRUSTED = [
    "Lean 4.33 kernel; axioms per theorem listed under coverage.axioms (subset of propext, Classical.choice, Quot.sound)",
    "translate/cellvol.py (calculateCellVol.cpp: permutation/pqr tables, C, cprod, denom -> Gen/CellVol.lean), cross-checked bit-exactly by the correspondence (grid.vol / grid.cells)",
    "translate/gridtops.py (EclipseGrid.cpp: which layers of the TOPS vector makeZcornDzTops reads - first layer only as found, every layer with design.d/C13.tops-gap.patch - plus shape checks of the loop nest and of createTOPSVector's tolerance logic -> Gen/GridTops.lean), cross-checked by the correspondence (gridt.deck, gridt.tops)",
    "translate/gridcopy.py (EclipseGrid.cpp: what resetACTNUM()/resetACTNUM(const int*) do with active_volume, what EclipseGrid(src, zcorn, actnum) does with m_input_zcorn, shape of activeVolume/getCellVolume/save -> Gen/GridCopy.lean), cross-checked by the correspondence (grid.seq: operation sequences on one object)",
    "harness/grid.cpp + lib/vlib.py differ; model driver (compiled Lean, IEEE double, same operation order as the C++)",
    "modelled, not verified: COORD/ZCORN generation and fixupZCORN are modelled in gather form (value of entry idx; per-line running clamp) against the scatter/push_back/in-place loops of the C++ — tied by comparing the complete arrays (and cells_adjusted) bit for bit",
    "object model (Model/GridState.lean): members active_volume, m_actnum + maps, m_coord/m_zcorn, zcorn_fixed, m_input_coord/m_input_zcorn; operations activeVolume, resetACTNUM(), resetACTNUM(mask), EclipseGrid(src, zcorn, actnum), EclipseGrid(src, actnum), save, EclipseGrid(file); MINPV state (mode, vector, setMINPVV, cellActiveAfterMINPV) is a separate record (Model/GridExt.lean) whose mask feeds resetACTNUM(mask); aquifer cells and LGRs are outside",
    "modelled, not verified (third round, Model/GridExt.lean): RADIAL grid construction, calculateCylindricalCellVol, apply_GRIDUNIT and MapAxes are hand-written models tied by bit-exact correspondence only (gridx.radial: complete COORD/ZCORN/volumes of parsed RADIAL decks incl. GRIDUNIT; gridx.gridunit; gridx.mapaxes; gridx.minpv); cos, sin, M_PI are libm/constant parameters (same libm in the compiled Lean driver and in the C++), the two std::hypot results of MapAxes::init are passed in by the harness (libm hypot is not correctly rounded, so it cannot be recomputed)",
    "observed only: independence of OMP_NUM_THREADS (1, 4, 16 compared bit for bit on the real code); Float ~ field (theorems are over a field of characteristic 0); float narrowing in EGRID files; formatted EGRID (property-mode round trip only, incl. NNC lists through EclIO::EGrid::get_nnc_ijk)",
    "modelled, not verified (fourth round, Model/GridTops.lean): createTOPSVector in gather form (per column a recursion over the layer; the C++ is one sequential loop over targetIndex), the AQUNUM record loop (m_aquifer_cells / m_aquifer_cell_depths with insert_or_assign) and the forcing inside resetACTNUM(const int*) as a pre-pass on the mask, getCellDepth's override, getCellAndBottomCenterNormal, isValidCellGeomtry (no theorem) - hand-written, tied by bit-exact correspondence (gridt.tops: the vector itself, called directly because it is a private static member whose lower layers reach no public query; gridt.deck: COORD/ZCORN of the parsed deck; gridt.aq / gridt.aqdepth: ACTNUM, maps and depths of AQUNUM decks through resetACTNUM and both copy constructors; gridt.normal; gridt.valid); harness/grid.cpp includes EclipseGrid.hpp under '#define private public'",
    "outside the model: PINCH/MINPV deactivation and pinch-out NNCs (not in opm-common; only the rule, the options and the setters are), SPIDER-specific behaviour beyond the shared arrays, LGR index maps, GDFILE input, getAquiferCellTabnums (PVTNUM/SATNUM of AQUNUM, used by FieldProps); PINCH option parsing is property-mode only",
]


def run(ctx):
    ctx.assumptions += [
        "doubles cross the protocol as IEEE bit patterns; x86-64 without FMA contraction (volumes, centres, depths, dims compared bit for bit)",
        "ACTNUM > 0 means active (as in resetACTNUM); numerical-aquifer (AQUNUM) cells are forced to ACTNUM 1 by resetACTNUM(const int*) only (resetACTNUM() activates everything anyway); the object-model theorems of round 2 are stated without aquifer cells, the forcing is composed in front (Props.C13.aquifer_forcing_laws)",
        "createTOPSVector: z_tolerance = 1e-6 (SI metres) at Float; theorems hold for every tolerance > 0 over an ordered field",
        "radial grids: INRAD >= 0, DRV >= 0, DTHETAV >= 0 with total <= 360 for the additivity / annulus theorems (the code throws above 360)",
        "nz >= 1 for DX/DY/DZ/TOPS input (the C++ indexes layer nz-1)",
    ]
    ctx.stage_translate(["cellvol", "eclio", "gridcopy", "gridtops"])
    try:
        gen = open(os.path.join(vlib.LEAN, "OpmVerif", "Gen", "GridCopy.lean")).read()
        if "copyZInputZcorn : InputZcorn := .keep" in gen:
            ctx.notes.append("Gen/GridCopy.lean: EclipseGrid(src, zcorn, actnum) keeps the source's m_input_zcorn in this tree: "
                             "save() of such a copy writes the old ZCORN (finding C13.zcorn_copy_stale_save, candidate fix design.d/C13.fix.patch); "
                             "the model follows the source (Props.C13.save_writes_current_geometry carries the side condition, copyZ_keep_breaks_save is the witness)")
    except OSError:
        pass
    try:
        every = ".everyLayer" in open(os.path.join(vlib.LEAN, "OpmVerif", "Gen", "GridTops.lean")).read().split("def zcornTopsLayers")[1]
    except (OSError, IndexError):
        every = False
    if not every:
      ctx.notes.append("observation (not recorded as a finding yet): makeZcornDzTops / makeCoordDxDyDzTops read only the first layer of the vector "
                     "createTOPSVector returns, so a gap or overlap >= 1e-6 m given in TOPS between two layers never reaches the geometry "
                     "(design.d/C13.repro_tops_gap.cpp, candidate design.d/C13.tops-gap.patch); property mode counts the affected decks/cells in "
                     "prop_stats.json (tops.gap_ignored_decks / _cells) and reports them under key grid.tops.gap_ignored once kReportTopsGap is set in harness/grid.cpp")
    if not ctx.stage_build_opm():
        return ctx.finish(trusted_base=TRUSTED)
    ok, exe, out = vlib.build_harness("grid")
    if not ok:
        ctx.tie_broken("harness", "grid harness does not compile: " + out[-2000:])
        return ctx.finish(trusted_base=TRUSTED)
    if ctx.stage_lean():
        ctx.stage_audit()
        ctx.stage_correspondence(exe, ["corr", ctx.seed, ctx.tier])
    # property's own statement on the implementation: always run; it is also the search
    # for a concrete failing input when a proof or the correspondence broke.
    ctx.stage_property_mode(exe, ["prop", ctx.seed, ctx.tier])
    return ctx.finish(trusted_base=TRUSTED)


def replay(ctx, path):
    data = json.load(open(path))
    print(json.dumps(data, indent=1)[:4000])
    if isinstance(data.get("seed"), int):
        ctx.seed = data["seed"]
    if data.get("tier") in ("quick", "thorough"):
        ctx.tier = data["tier"]
    return run(ctx)
