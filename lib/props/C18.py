"""C18 — ACTIONX conditions evaluate correctly; triggering respects count and wait limits."""
import json
from .. import vlib

TRUSTED = [
    "Lean 4.33 kernel; axioms per theorem listed under coverage.axioms (subset of propext, Classical.choice, Quot.sound)",
    "harness/action.cpp (reads Action::AST / ASTNode through their public serializeOp; sends raw token strings with the get_func code; the real strtod value travels too but is used for nan(chars) only; for the restart ops it fills the ZACN/IACN/SACN slots of ONE condition by hand the way AggregateActionxData.cpp does and reads them back through the real RstAction::Condition) + lib/vlib.py differ; model driver (compiled Lean)",
    "modelled, not verified: get_func (summary keyword categories), the payload of nan(chars), [:class:]/[=c=]/[.c.] in fnmatch brackets, SummaryState storage; Model/Strtod.lean (C07's strtod model) is reused for the value of decimal tokens; State::load_rst and dequote have no direct correspondence op; the restart WRITER (AggregateActionxData.cpp: which slot holds what, PaddedOutputString<8> truncation) is not modelled — only format_double and RstAction::Condition::tokens()",
    "the harness's own number grammar (ownNumberGrammar) and its own copy of the writer's rule 'constant = std::stod(token)' in property mode",
]


def run(ctx):
    ctx.assumptions += [
        "times are whole seconds (std::time_t); min_wait is compared through std::difftime",
        "well names are ASCII, so std::less<std::string> and Lean's String order agree",
    ]
    if not ctx.stage_build_opm():
        return ctx.finish(trusted_base=TRUSTED)
    ok, exe, out = vlib.build_harness("action")
    if not ok:
        ctx.tie_broken("harness", "action harness does not compile: " + out[-2000:])
        return ctx.finish(trusted_base=TRUSTED)
    if ctx.stage_lean():
        ctx.stage_audit()
        ctx.stage_correspondence(exe, ["corr", ctx.seed, ctx.tier])
    ctx.stage_property_mode(exe, ["prop", ctx.seed, ctx.tier])
    return ctx.finish(trusted_base=TRUSTED)


def replay(ctx, path):
    data = json.load(open(path))
    print(json.dumps(data, indent=1)[:4000])
    return run(ctx)
