"""C18 — ACTIONX conditions evaluate correctly; triggering respects count and wait limits."""
import json
from .. import vlib

TRUSTED = [
    "Lean 4.33 kernel; axioms per theorem listed under coverage.axioms (subset of propext, Classical.choice, Quot.sound)",
    "harness/action.cpp (reads Action::AST / ASTNode through their public serializeOp; sends raw token strings with the get_func code; the real strtod value travels too but is used for nan(chars) only) + lib/vlib.py differ; model driver (compiled Lean)",
    "modelled, not verified: get_func (summary keyword categories), the payload of nan(chars), [:class:]/[=c=]/[.c.] in fnmatch brackets, SummaryState storage; Model/Strtod.lean (C07's strtod model) is reused for the value of decimal tokens; State::load_rst and dequote have no direct correspondence op",
]


def run(ctx):
    ctx.assumptions += [
        "times are whole seconds (std::time_t); min_wait is compared through std::difftime",
        "well names are ASCII, so std::less<std::string> and Lean's String order agree",
    ]
    if not ctx.stage_build_opm():
        return ctx.finish(trusted_base=TRUSTED)
    ok, exe, out = vlib.build_harness("action")
    if not ok:
        ctx.tie_broken("harness", "action harness does not compile: " + out[-2000:])
        return ctx.finish(trusted_base=TRUSTED)
    if ctx.stage_lean():
        ctx.stage_audit()
        ctx.stage_correspondence(exe, ["corr", ctx.seed, ctx.tier])
    ctx.stage_property_mode(exe, ["prop", ctx.seed, ctx.tier])
    return ctx.finish(trusted_base=TRUSTED)


def replay(ctx, path):
    data = json.load(open(path))
    print(json.dumps(data, indent=1)[:4000])
    return run(ctx)
