"""C17 — UDQ expressions evaluate according to the documented expression semantics."""
import json
from .. import vlib

TRUSTED = [
    "Lean 4.33 kernel; axioms per theorem listed under coverage.axioms (subset of propext, Classical.choice, Quot.sound)",
    "translate/udq.py (UDQTokenType enum, token-class sets, func_type table, function registrations, UDQVarType, is_no_mix, targetType first-character table -> Gen/UdqEnums.lean), cross-checked by the AST/eval/var_type correspondence",
    "harness/udq.cpp (reads UDQASTNode/UDQDefine private members through their public serializeOp) + lib/vlib.py differ; model driver (compiled Lean, libm pow/exp/log shared with the C++)",
    "outside the model: strtod beyond decimal literals (hex, inf, nan), fnmatch bracket expressions and inner backslash escapes (the matcher itself — * ? literal, well lists, leading backslash — is modelled and tied by udq.match / udq.wells), segment/region quantities, table evaluation, RAND*; std::sort tie order: stable insertion for <= 16 defined elements (exact correspondence), any admissible permutation above (real answers checked against the model's specification isSortRank)",
]


def run(ctx):
    ctx.assumptions += [
        "doubles cross the protocol as IEEE bit patterns and are compared exactly (the compiled model calls the same libm)",
        "records on which make_udq_tokens runs past the end of its token vector (table look-up without ']') are undefined behaviour in the code; the model answers `ub`, the correspondence does not execute them, property mode probes them in a child process (known finding table-lookup-unterminated)",
        "trees with a childless operator node (known finding operator-as-operand) are compared as trees but never evaluated",
    ]
    ctx.stage_translate(["udq"])
    if not ctx.stage_build_opm():
        return ctx.finish(trusted_base=TRUSTED)
    ok, exe, out = vlib.build_harness("udq")
    if not ok:
        ctx.tie_broken("harness", "udq harness does not compile: " + out[-2000:])
        return ctx.finish(trusted_base=TRUSTED)
    if ctx.stage_lean():
        ctx.stage_audit()
        ctx.stage_correspondence(exe, ["corr", ctx.seed, ctx.tier])
    ctx.stage_property_mode(exe, ["prop", ctx.seed, ctx.tier])
    return ctx.finish(trusted_base=TRUSTED)


def replay(ctx, path):
    data = json.load(open(path))
    print(json.dumps(data, indent=1)[:4000])
    return run(ctx)
