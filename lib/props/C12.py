"""C12 — Cell property arrays equal sequential application of the keyword operations."""
import json, os
from .. import vlib

TRUSTED = [
    "Lean 4.33 kernel; axioms per theorem listed under coverage.axioms (subset of propext, Classical.choice, Quot.sound)",
    "harness/fieldprops.cpp (deck renderer, observation through the public FieldPropsManager API, independent C++ reference interpreter) + lib/vlib.py differ; model driver (compiled Lean)",
    "keyword_info tables (defaults, multiplier/top/global flags, SI factors) are read from the real global_kw_info<T>/UnitSystem at run time and handed to the model; the hypothesis TablesOK of inactive_independence is evaluated on them by the driver on every case (tablesOkB, answer bad-tables)",
    "modelled, not verified: Parser (deck text -> DeckItems), EclipseGrid geometry and its active map (specified by `rank`; the real Box class is driven directly with arbitrary maps), libm (pow/log/log10 are called on both sides)",
    "the one-cell semantics runProg1/runProg1N of the independence proofs are proof devices, tied to the code only through the theorems (no direct correspondence line)",
    "outside the model: PORV/TEMPI/saturation end points, multi-valued (compositional) keywords (only the fixed witness), aliases, GRIDOPTS/MULTREGP, apply_tranz_global, TRAN operations outside EDIT and rejected TRAN edits",
    "transmissibility calculators: the ACTNUM while EDIT is scanned and the final ACTNUM are inputs of the tranI/tranR lines, read from the real EclipseGrid(deck) / EclipseState (their derivation is what the impl/ref lines of the same case check); 1, max(), lowest() and the transmissibility SI factor are read from the real code; the whole-run refinement impl = ref of the calculators is tied by correspondence (proved per loop)",
    "SCHEDULE multipliers: the state of the six arrays before apply_schedule_keywords is read from the real code and handed to the model",
    "four defects found by the check (design.d/C12.md findings 1-3, 6) are fixed in the code (5ceb9fc1d, d8c0ea4e0, 0679405ff, bf5bceae1); the reproductions of 1-3 run as fixed property-mode witnesses, 6 is covered by the armed accept/reject clause and the OPERATER-then-must-exist generator",
]


def run(ctx):
    ctx.assumptions += [
        "decks are METRIC, FIELD or LAB (interleaved within the process), regular unit cells 1 m / 1 ft / 1 cm (PORV zero test modelled with unit volume), no MINPV/GRIDOPTS/MULTREGP/numerical aquifers; ACTNUM values 0/1",
        "keyword set restricted to arrays without keyword-specific post-processing (see design.d/C12.md)",
        "every exception is fatal for EclipseState, so a rejection anywhere rejects the deck",
    ]
    if not ctx.stage_build_opm():
        return ctx.finish(trusted_base=TRUSTED)
    ok, exe, out = vlib.build_harness("fieldprops")
    if not ok:
        ctx.tie_broken("harness", "fieldprops harness does not compile: " + out[-2000:])
        return ctx.finish(trusted_base=TRUSTED)
    if ctx.stage_lean():
        ctx.stage_audit()
        ctx.stage_correspondence(exe, ["corr", ctx.seed, ctx.tier])
    ctx.stage_property_mode(exe, ["prop", ctx.seed, ctx.tier])
    return ctx.finish(trusted_base=TRUSTED)


def replay(ctx, path):
    data = json.load(open(path))
    print(json.dumps(data, indent=1)[:4000])
    return run(ctx)
