"""C09 — Summary vectors obey their definitions, accumulation and group hierarchy laws."""
import json, os, subprocess
from .. import vlib

TRUSTED = [
    "Lean 4.33 kernel; axioms per theorem listed under coverage.axioms (subset of propext, Classical.choice, Quot.sound)",
    "translate/sumfuns.py (funs table, rate_unit/mul_unit/div_unit, SegmentPressures::Value, is_total rules of SummaryState and SummaryConfig -> Gen/SumFuns.lean); "
    "it also refuses to run when rate<>, crate<>, crate_resv<>, cpr, ratel<>, cratel<>, segment_quantity, srate<>, segpress<>, region_rate<>, node_pressure, "
    "find_wells, find_region_wells, setFactors, struct quantity, update_*_var or parseKeywordType lose the modelled shape; cross-checked by the correspondence",
    "harness/summary.cpp (deck generator incl. the per-step history of GRUPTREE / WELSPECS / COMPDAT changes, and property mode's own per-step tree `treeAt` built from the generated specification, not from the Schedule) + lib/vlib.py differ; model driver (compiled Lean, Float = IEEE double)",
    "out::RegionCache (the harness builds the real class to obtain the connections of a region), Well::getConnections / complnum (read from the real Schedule)",
    "modelled, not verified: funs entries that translate to `atom` (tracers, guide rates, potentials, productivity indices, control modes, aquifers, "
    "segment densities / velocities / holdup, filtrate, inter-region flows), UnitSystem conversion factors (passed in from the real UnitSystem; hard constants "
    "in property mode), gmtime of the real code (the model's date function is proved a valid-date right inverse of the day count; tied to gmtime by the "
    "sumfuns.time op and property mode), Float vs field arithmetic",
]


def run(ctx):
    ctx.assumptions += [
        "efficiency factors are positive (WEFAC/GEFAC in (0,1]) — needed for the sign rule to commute with the factor",
        "Schedule parent pointers (flow_group) and children lists (groups(), wells()) describe the same tree (checked per case by sumfuns.tree)",
        "correspondence tolerance: relative 1e-12 on every value (a second pass with tolerance 0 is reported as bit_exact_lines)",
    ]
    ctx.stage_translate(["sumfuns"])
    try:
        from translate import sumfuns
        ctx.cov["table"] = sumfuns.generate(vlib.REPO).get("stats", {})
    except Exception:
        pass
    if not ctx.stage_build_opm():
        return ctx.finish(trusted_base=TRUSTED)
    ok, exe, out = vlib.build_harness("summary")
    if not ok:
        ctx.tie_broken("harness", "summary harness does not compile: " + out[-2000:])
        return ctx.finish(trusted_base=TRUSTED)
    if ctx.stage_lean():
        ctx.stage_audit()
        if ctx.stage_correspondence(exe, ["corr", ctx.seed, ctx.tier]):
            _exact_pass(ctx)
    ctx.stage_property_mode(exe, ["prop", ctx.seed, ctx.tier])
    return ctx.finish(trusted_base=TRUSTED)


def _exact_pass(ctx):
    """Informational: how many lines also agree bit for bit (tolerance 0)."""
    d = os.path.join(ctx.work, "corr")
    ops, ops0, m0 = (os.path.join(d, x) for x in ("ops.txt", "ops0.txt", "model0.txt"))
    tol = " 3d719799812dea11 G "
    with open(ops) as fi, open(ops0, "w") as fo:
        for line in fi:
            fo.write(line.replace(tol, " 0000000000000000 G ", 1))
    rc, err = vlib.run_driver(ops0, m0)
    if rc == 0:
        n, dis, total = vlib.diff_lines(ops0, os.path.join(d, "impl.txt"), m0)
        ctx.cov["correspondence"]["corr"]["bit_exact_lines"] = n - total
    os.remove(ops0)


def replay(ctx, path):
    data = json.load(open(path))
    print(json.dumps(data, indent=1)[:4000])
    return run(ctx)
