#!/usr/bin/env python3
"""Run every translator (used by setup.sh; each check runs its own subset)."""
import os, sys
sys.path.insert(0, os.path.dirname(os.path.dirname(os.path.abspath(__file__))))
from lib import vlib
TDIR = os.path.join(os.path.dirname(os.path.dirname(os.path.abspath(__file__))), "translate")
TRANSLATORS = sorted(f[:-3] for f in os.listdir(TDIR) if f.endswith(".py") and f not in ("__init__.py", "common.py"))
ok, info, errors = vlib.regenerate(TRANSLATORS)
for e in errors:
    print("translator error:", e)
print("generated:", ", ".join(info))
from lib import gen_driver
gen_driver.main()
sys.exit(0 if ok else 1)
