#!/usr/bin/env python3
"""Run every translator (used by setup.sh; each check runs its own subset)."""
import os, sys
sys.path.insert(0, os.path.dirname(os.path.dirname(os.path.abspath(__file__))))
from lib import vlib
TRANSLATORS = ["eclio"]
ok, info, errors = vlib.regenerate(TRANSLATORS)
for e in errors:
    print("translator error:", e)
print("generated:", ", ".join(info))
sys.exit(0 if ok else 1)
