#!/usr/bin/env python3
"""Assembles /verif/DESIGN.md from design.src/ (approach + the plan written before the code)
and design.d/Cxx.md (as built), known_findings.txt, manifest.d/, seeded/."""
import json, os, re
ROOT = os.path.dirname(os.path.dirname(os.path.abspath(__file__)))
rd = lambda *p: open(os.path.join(ROOT, *p)).read()
props = [json.loads(l) for l in open(os.path.join(ROOT, "properties.jsonl"))]


def fixed_table():
    rows = ["| property | fix commit | what failed |", "|---|---|---|"]
    for line in open(os.path.join(ROOT, "known_findings.txt")):
        m = re.match(r"fixed:\s+property=(\S+)\s+(\S+)\s+(.*)", line.strip())
        if m:
            rows.append(f"| {m.group(1)} | `{m.group(2)}` | {m.group(3).replace('|', '/')} |")
    fnd = [l.strip() for l in open(os.path.join(ROOT, "known_findings.txt")) if l.startswith("finding:")]
    out = "\n".join(rows)
    if fnd:
        out += "\n\nRecorded, not repaired (`finding:` lines):\n\n" + "\n".join("* " + f for f in fnd)
    return out


def seed_table():
    rows = ["| seed | property | what it breaks / what it needs | valid seed | quick check | how |", "|---|---|---|---|---|---|"]
    sdir = os.path.join(ROOT, "seeded")
    for name in sorted(os.listdir(sdir)) if os.path.isdir(sdir) else []:
        mp = os.path.join(sdir, name, "meta.json")
        if not os.path.exists(mp):
            continue
        m = json.load(open(mp)); c = m.get("confirmation", {})
        lines = c.get("check", {}).get("lines", [])
        how = []
        if any("TIE BROKEN [proof]" in l or "TIE BROKEN [translator]" in l or "TIE BROKEN [audit]" in l for l in lines): how.append("proof/translator")
        if any("TIE BROKEN [correspondence]" in l for l in lines): how.append("correspondence")
        first_input = any(l.startswith("VIOLATION") and "no-failing-input-found" not in l for l in lines)
        if c.get("detected_with_failing_input"):
            how.append("failing input (property mode)" + ("" if first_input or not c.get("rechecks") else " — after the check was strengthened, first run: " + ("tie only" if lines else "missed")))
        title = (m.get("title") or "")[:110].replace("|", "/")
        needs = (m.get("needs_to_manifest") or "")[:160].replace("|", "/")
        rows.append(f"| `{name}` | {m.get('property', c.get('property',''))} | {title} — needs: {needs} | {'yes' if c.get('valid_seed') else 'NO'} | "
                    f"{'caught' if c.get('detected') else 'MISSED'} | {', '.join(how) or '-'} |".replace("\n", " "))
    return "\n".join(rows)


def status_table():
    rows = ["| id | title | status | theorems | as built |", "|---|---|---|---|---|"]
    glob = json.load(open(os.path.join(ROOT, "manifest.d", "_global.json")))
    for p in props:
        pid = p["id"]
        mf = os.path.join(ROOT, "manifest.d", pid + ".json")
        n = ""
        pf = os.path.join(ROOT, "lean", "OpmVerif", "Props", pid + ".lean")
        if os.path.exists(pf):
            txt = re.sub(r"/-.*?-/", " ", rd("lean", "OpmVerif", "Props", pid + ".lean"), flags=re.S)
            n = str(len(re.findall(r"(?m)^theorem\s", txt)))
        if os.path.exists(mf):
            m = json.load(open(mf))
            st = "claimed — " + ("proof (partial)" if "partial" in (m.get("text", "")[:40] + str(m.get("category", ""))).lower() else "proof")
        else:
            st = "not claimed yet: " + glob.get("not_applicable", {}).get(pid, "family still being built")
        ab = f"`design.d/{pid}.md`" if os.path.exists(os.path.join(ROOT, "design.d", pid + ".md")) else "-"
        rows.append(f"| {pid} | {p['title']} | {st} | {n} | {ab} |")
    return "\n".join(rows)


out = [rd("design.src", "00_head.md")]
out.append(rd("design.src", "30_findings.md").replace("@FIXED_TABLE@", fixed_table()))
out.append("## 3a. Status per property\n\n" + status_table() + "\n")
out.append(rd("design.src", "40_plan_intro.md").replace("## 4. Per-property design", "## 4. Per-property design: the plan (written before the code) and what was built"))
for p in props:
    pid = p["id"]
    plan = rd("design.src", "plan", pid + ".md")
    plan = plan.replace("### " + pid, "### " + pid, 1)
    out.append(plan.rstrip() + "\n")
    ab = os.path.join(ROOT, "design.d", pid + ".md")
    if os.path.exists(ab):
        txt = open(ab).read()
        txt = re.sub(r"(?m)^# ", "#### ", txt)
        txt = re.sub(r"(?m)^## ", "##### ", txt)
        txt = re.sub(r"(?m)^### ", "###### ", txt)
        out.append(f"#### {pid} — AS BUILT (from `design.d/{pid}.md`)\n\n" + txt.rstrip() + "\n")
    else:
        out.append(f"#### {pid} — as built\n\nNot merged yet at this commit; the property is listed under `not_applicable` in MANIFEST.json until its family is merged.\n")
out.append(rd("design.src", "80_tail.md").replace("@SEED_TABLE@", seed_table()))
open(os.path.join(ROOT, "DESIGN.md"), "w").write("\n".join(out))
print("DESIGN.md:", sum(len(x.splitlines()) for x in out), "lines")
